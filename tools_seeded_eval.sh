#!/bin/sh
# usage: tools_seeded_eval.sh <seeded-dir-or-patch> <tier> <ID>... : applies a seeded change to /repo, runs the checks, reverts
patch=$1; tier=$2; shift 2
[ -d "$patch" ] && patch=$patch/patch.diff
patch=$(readlink -f "$patch")
git -C /repo diff --quiet || { echo "repo dirty"; exit 3; }
# evidence files are rewritten by every check run: keep the clean-tree ones and put them back afterwards
keep=$(mktemp -d /tmp/evidence-keep.XXXXXX); cp -a /verif/evidence/. $keep/
git -C /repo apply --3way "$patch" 2>/tmp/apply.err || git -C /repo apply "$patch" || { echo "PATCH DOES NOT APPLY"; cat /tmp/apply.err; git -C /repo reset -q --hard HEAD; exit 4; }
for id in "$@"; do
  cd /verif && VERIF_SEED=${VERIF_SEED:-1} ./verif.sh check $id $tier > /tmp/seeded-eval-$id.out 2>&1; rc=$?
  echo "== $id exit=$rc"; grep -v '^KNOWN' /tmp/seeded-eval-$id.out | grep -m3 -E 'shard|INCONCLUSIVE|BUILD|regression' | cut -c1-420
done
git -C /repo reset -q --hard HEAD; git -C /repo status --short | head -3
cp -a $keep/. /verif/evidence/; rm -rf $keep
