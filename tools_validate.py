#!/usr/bin/env python3
# validates MANIFEST.json and every evidence file against the schemas in /root/.vp
import json, sys, glob, jsonschema
ok = True
m = json.load(open('/verif/MANIFEST.json'))
jsonschema.validate(m, json.load(open('/root/.vp/MANIFEST.schema.json')))
es = json.load(open('/root/.vp/EVIDENCE.schema.json'))
for f in sorted(glob.glob('/verif/evidence/*.json')):
    try:
        jsonschema.validate(json.load(open(f)), es)
    except Exception as e:
        ok = False
        print('INVALID', f, str(e)[:300])
ids = [json.loads(l)['id'] for l in open('/verif/properties.jsonl')]
claimed = [c['property_id'] for c in m['checks']]
na = [c['property_id'] for c in m.get('not_applicable', [])]
for i in ids:
    if (i in claimed) == (i in na):
        ok = False
        print('property', i, 'must be either claimed or not_applicable')
print('manifest ok; claimed', len(claimed), 'not_applicable', len(na))
sys.exit(0 if ok else 1)
