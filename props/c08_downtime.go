package props

// C08 — Downtime accounting: sliding window is exact. Ring-buffer reference model per validator.

import (
	"encoding/hex"
	"fmt"
	"math/big"

	"pgregory.net/rapid"

	sdk "github.com/pokt-network/posmint/types"
)

type c08Ring struct {
	bits    map[int64]bool
	offset  int64
	counter int64
	start   int64
	known   bool
}

type c08Oracle struct {
	c       *Case
	rings   map[string]*c08Ring
	crossed bool
	wrapped map[string]bool
	flips   map[string][2]bool
	aborted bool
	window0 int64
	minS0   string
}

// required signed blocks per window: round half to even of minSigned * window
func requiredSigned(minSigned sdk.Dec, window int64) int64 {
	num := new(big.Int).Mul(minSigned.Int, big.NewInt(window))
	return divRound(num, bigTen18, "even").Int64()
}

func (o *c08Oracle) after(ch *chain, ci *callInfo) *Violation {
	if ci.Panic != nil {
		o.aborted = true
		o.c.Label("panic:" + ci.Kind + ":" + panicClass(ci.Panic))
		return nil
	}
	if ci.Kind != "begin" {
		return nil
	}
	before, after := ci.Before, ci.After
	where := fmt.Sprintf("BeginBlock at height %d (block %d)", ci.Height, ci.BlockIx)
	W := ch.posParamInt64(before, "SignedBlocksWindow")
	minSigned := ch.posDec(before, "MinSignedPerWindow")
	if o.window0 == 0 {
		o.window0, o.minS0 = W, minSigned.String()
	}
	if W != o.window0 || minSigned.String() != o.minS0 {
		return nil // parameters are not changed in these histories
	}
	maxMissed := W - requiredSigned(minSigned, W)

	// evidence of this block may jail too: those validators are not judged for "jailed early"
	convictedNow := map[string]bool{}
	for _, ev := range ci.Req.ByzantineValidators {
		convictedNow[hex.EncodeToString(ev.Validator.Address)] = true
	}
	for _, vote := range ci.Req.LastCommitInfo.Votes {
		a := hex.EncodeToString(vote.Validator.Address)
		bi, ok := before.Sign[a]
		if !ok {
			continue // not a validator the app was ever told about (not generated)
		}
		r := o.rings[a]
		if r == nil {
			// first time this validator is expected to sign: adopt the stored start height and window state
			r = &c08Ring{bits: map[int64]bool{}, offset: bi.IndexOffset, counter: bi.MissedBlocksCounter, start: bi.StartHeight}
			for i, m := range before.Missed[a] {
				if m {
					r.bits[i] = true
				}
			}
			o.rings[a] = r
		}
		idx := r.offset % W
		r.offset++
		prev := r.bits[idx]
		missed := !vote.SignedLastBlock
		fl := o.flips[a]
		switch {
		case !prev && missed:
			r.bits[idx] = true
			r.counter++
			fl[0] = true
		case prev && !missed:
			delete(r.bits, idx)
			r.counter--
			fl[1] = true
		}
		o.flips[a] = fl
		if r.offset > W {
			o.wrapped[a] = true
		}
		bv, exists := before.Vals[a]
		mustJail := ci.Height > r.start+W && r.counter > maxMissed && exists && !bv.Jailed
		if mustJail {
			r.counter, r.offset, r.bits = 0, 0, map[int64]bool{}
			o.crossed = true
		}
		// compare with the stored state
		ai := after.Sign[a]
		stored := int64(0)
		for _, m := range after.Missed[a] {
			if m {
				stored++
			}
		}
		av := after.Vals[a]
		newlyJailed := exists && !bv.Jailed && av.Jailed
		if mustJail && !newlyJailed {
			return violf("C08/not-jailed-at-threshold", "%s: validator %s has missed %d of its last %d blocks (max %d allowed, start height %d) but was not slashed and jailed", where, a, maxMissed+1, W, maxMissed, r.start)
		}
		if mustJail {
			// "slashed and jailed": the downtime fraction of the power Tendermint reported for it, at most its stake;
			// below the minimum the rest is burned too (no other slash happens in these histories)
			amt, _ := slashAmount(vote.Validator.Power, ch.posDec(before, "SlashFractionDowntime"), bv.StakedTokens.BigInt())
			wantStake := new(big.Int).Sub(bv.StakedTokens.BigInt(), amt)
			if wantStake.Cmp(big.NewInt(ch.posParamInt64(before, "StakeMinimum"))) < 0 {
				wantStake = new(big.Int)
			}
			if av.StakedTokens.BigInt().Cmp(wantStake) != 0 && len(ci.Req.ByzantineValidators) == 0 {
				return violf("C08/slash-at-jailing", "%s: validator %s was jailed for downtime with reported power %d and fraction %s: stake %s -> %s, expected %s",
					where, a, vote.Validator.Power, ch.posDec(before, "SlashFractionDowntime"), bv.StakedTokens, av.StakedTokens, wantStake)
			}
		}
		if !mustJail && newlyJailed && !convictedNow[a] {
			return violf("C08/jailed-early", "%s: validator %s was jailed for downtime although its window holds %d misses (max %d allowed) and height %d vs start %d + window %d", where, a, r.counter, maxMissed, ci.Height, r.start, W)
		}
		if ai.MissedBlocksCounter != r.counter {
			return violf("C08/counter", "%s: validator %s missed-blocks counter is %d, the window model says %d (window %d, offset %d, signed=%v)", where, a, ai.MissedBlocksCounter, r.counter, W, r.offset, vote.SignedLastBlock)
		}
		if stored != r.counter {
			return violf("C08/bit-array", "%s: validator %s has %d missed entries stored but counter %d", where, a, stored, r.counter)
		}
		if ai.IndexOffset != r.offset {
			return violf("C08/index-offset", "%s: validator %s index offset %d, model %d", where, a, ai.IndexOffset, r.offset)
		}
		if ai.StartHeight != r.start {
			return violf("C08/start-height", "%s: validator %s start height changed from %d to %d", where, a, r.start, ai.StartHeight)
		}
	}
	return nil
}

func genC08(t *rapid.T, tier string) interface{} {
	pr := &histProfile{MaxBlocks: 1, TxKinds: []string{"unjail", "unjail", "stake", "send", "unstake"}, MaxTxs: 2}
	p := &hProg{Gen: genGenesis(t, pr)}
	g := &p.Gen
	g.Window = int64(rapid.IntRange(10, 40).Draw(t, "window"))
	if rapid.Bool().Draw(t, "oddwindow") && g.Window%2 == 0 {
		g.Window++
	}
	// 1 case in 30: a window beyond one byte (the ring index is a little-endian key suffix: key order is not index order)
	bigWindow := rapid.IntRange(0, 29).Draw(t, "bigwindow") == 0
	if bigWindow {
		g.Window = rapid.SampledFrom([]int64{256, 257, 300, 320, 511, 512}).Draw(t, "bigw")
	}
	g.MinSigned = rapid.SampledFrom([]string{"0", "0.05", "0.5", "0.5", "0.9", "1", "0.25", "0.75"}).Draw(t, "minsigned")
	g.MaxValidators = 100000
	g.JailSec = 60
	g.UnstakingSec = 3600
	g.SlashDT = rapid.SampledFrom([]string{"0", "0.01", "0.01", "0.05", "0.333333333333333333", "0.000000000000000001"}).Draw(t, "slashdt")
	g.SlashDS = "0.05"
	for len(g.Validators) < 2 {
		g.Validators = append(g.Validators, hGenVal{Key: 7 - len(g.Validators), Stake: 5000001})
	}
	if bigWindow {
		g.Validators = g.Validators[:2] // the state dumps grow with validators x window
	}
	for i := range g.Validators {
		// funded accounts, so that their unjail / stake transactions can pay
		funded := false
		for j := range g.Accounts {
			if g.Accounts[j].Key == g.Validators[i].Key {
				funded = true
				if g.Accounts[j].Balance < 50000000 {
					g.Accounts[j].Balance = 50000000
				}
				g.Accounts[j].NoPub = false
			}
		}
		if !funded {
			g.Accounts = append(g.Accounts, hGenAcc{Key: g.Validators[i].Key, Balance: 50000000})
		}
		if g.Validators[i].Stake < 3*g.StakeMinimum {
			g.Validators[i].Stake = 3*g.StakeMinimum + 1 // survive a few downtime slashes
		}
	}
	ms, _ := sdk.NewDecFromStr(g.MinSigned)
	maxMissed := g.Window - requiredSigned(ms, g.Window)
	nb := rapid.IntRange(int(g.Window), int(4*g.Window)).Draw(t, "nblocks")
	if tier == "quick" && nb > int(3*g.Window) {
		nb = int(3 * g.Window)
	}
	if bigWindow {
		nb = int(g.Window) + rapid.IntRange(5, 40).Draw(t, "bigextra")
	}
	type pat struct{ kind, k, phase int }
	pats := make([]pat, 8)
	for i := range pats {
		pats[i] = pat{kind: rapid.IntRange(0, 6).Draw(t, "pattern"), k: int(maxMissed) + rapid.IntRange(-1, 2).Draw(t, "patk"), phase: rapid.IntRange(0, int(g.Window)).Draw(t, "phase")}
	}
	txgen := genTx(pr)
	for b := 0; b < nb; b++ {
		blk := hBlock{DTSec: rapid.SampledFrom([]int64{1, 5, 61}).Draw(t, "dt"), Proposer: rapid.IntRange(0, 3).Draw(t, "proposer")}
		for vi := 0; vi < len(g.Validators) && vi < len(pats); vi++ {
			p := pats[vi]
			miss := false
			switch p.kind {
			case 0: // all signed
			case 1:
				miss = true
			case 2:
				miss = (b+p.phase)%2 == 0
			case 3: // miss the first k, then sign
				miss = b < p.k
			case 4: // sign a full window, then miss k in a row, then sign
				miss = b >= int(g.Window)+p.phase && b < int(g.Window)+p.phase+p.k
			case 5: // bursts
				miss = (b/3+p.phase)%2 == 0
			default:
				miss = rapid.IntRange(0, 99).Draw(t, "bit") < 40
			}
			if miss {
				// addressed by key: each validator follows its own pattern whatever the size of the set
				blk.MissedKeys = append(blk.MissedKeys, g.Validators[vi].Key)
			}
		}
		if rapid.IntRange(0, 5).Draw(t, "hastx") == 0 {
			tx := txgen(t)
			tx.Mut, tx.Mode, tx.Replay = "", "", 0
			if rapid.IntRange(0, 3).Draw(t, "txbyval") != 0 {
				// by one of the validators under observation (unjail after a jailing, re-stake after a forced unstake)
				tx.From = g.Validators[rapid.IntRange(0, len(g.Validators)-1).Draw(t, "txval")].Key
				tx.SignWith, tx.KeyInSig = -1, true
				if tx.Kind == "send" {
					tx.Kind = "unjail"
				}
			}
			blk.Txs = []hTx{tx}
		}
		p.Blocks = append(p.Blocks, blk)
	}
	return p
}

func execC08(prog interface{}, c *Case) *Violation {
	ch, v := newChain(prog.(*hProg), c)
	if v != nil || ch == nil {
		return v
	}
	o := &c08Oracle{c: c, rings: map[string]*c08Ring{}, wrapped: map[string]bool{}, flips: map[string][2]bool{}}
	if v := ch.run(o); v != nil {
		return v
	}
	if o.aborted {
		c.Label("aborted-by-panic")
	}
	wrapBoth := false
	for a := range o.wrapped {
		if f := o.flips[a]; f[0] && f[1] {
			wrapBoth = true
		}
	}
	if o.crossed {
		c.Label("crossed-the-threshold")
	}
	if wrapBoth {
		c.Label("ring-wrapped-with-flips-both-ways")
	}
	if o.crossed || wrapBoth {
		c.NonTrivial()
	}
	return nil
}

func init() {
	register(&PropDef{ID: "C08",
		Rule: "chain histories of W..4W (quick 3W) blocks with SignedBlocksWindow W in [10,40] (odd sizes forced half of the time), MinSignedPerWindow in {0,0.05,0.25,0.5,0.75,0.9,1}, 2-6 validators, per-validator vote " +
			"patterns (all signed, all missed, alternating, miss the first k, sign a window then miss k in a row with k = threshold-1..threshold+2, bursts, random 40% misses) and occasional unjail/stake " +
			"transactions; a ring-buffer model per validator (bits, offset, counter, start height) is stepped for every vote and compared with the stored signing info and the raw missed-bit array after every " +
			"BeginBlock; the slash+jail must happen exactly when height > start+W and counter > W - round_half_even(min*W) and the validator is not jailed, and reset the window. " +
			"Non-trivial = the sequence crosses the threshold, or wraps the ring with a bit flipped each way; distinctness = hash of the program",
		Gen: genC08, New: func() interface{} { return &hProg{} }, Exec: execC08, RecordCur: func(interface{}) bool { return true },
		Assum: []string{"votes are only reported for validators the application was told about", "window parameters are not changed mid-history",
			"the stake removed by the downtime slash is C07's subject"}})
}
