package props

// Structural mutation of amino-encoded transactions: the encoding is protobuf-like (field key varint =
// number<<3|wire type), so a well-formed transaction can have one field of its message (or of the
// transaction itself) dropped, duplicated, emptied or given another wire type while every length prefix
// stays consistent. Such inputs decode - they are not stopped by the decoder like truncated or bit-flipped
// bytes - and reach ValidateBasic and the handlers with zero-valued or nil-backed fields.

import "encoding/binary"

type aminoField struct {
	num  uint64
	wire uint64
	raw  []byte // payload (for wire type 2: without the length prefix)
}

func parseAminoFields(b []byte) ([]aminoField, bool) {
	var out []aminoField
	for len(b) > 0 {
		key, n := binary.Uvarint(b)
		if n <= 0 {
			return nil, false
		}
		b = b[n:]
		f := aminoField{num: key >> 3, wire: key & 7}
		switch f.wire {
		case 0:
			_, n := binary.Uvarint(b)
			if n <= 0 {
				return nil, false
			}
			f.raw, b = b[:n], b[n:]
		case 1:
			if len(b) < 8 {
				return nil, false
			}
			f.raw, b = b[:8], b[8:]
		case 5:
			if len(b) < 4 {
				return nil, false
			}
			f.raw, b = b[:4], b[4:]
		case 2:
			l, n := binary.Uvarint(b)
			if n <= 0 || uint64(len(b)-n) < l {
				return nil, false
			}
			f.raw, b = b[n:n+int(l)], b[n+int(l):]
		default:
			return nil, false
		}
		out = append(out, f)
	}
	return out, true
}

func encodeAminoFields(fs []aminoField) []byte {
	var out []byte
	var tmp [binary.MaxVarintLen64]byte
	for _, f := range fs {
		n := binary.PutUvarint(tmp[:], f.num<<3|f.wire)
		out = append(out, tmp[:n]...)
		if f.wire == 2 {
			n := binary.PutUvarint(tmp[:], uint64(len(f.raw)))
			out = append(out, tmp[:n]...)
		}
		out = append(out, f.raw...)
	}
	return out
}

// mutateFields applies one structural operation to field number `which` (mod count) of a field list.
func mutateFields(fs []aminoField, op string, which int) []aminoField {
	if len(fs) == 0 {
		return fs
	}
	i := mod(which, len(fs))
	out := append([]aminoField{}, fs...)
	switch op {
	case "drop":
		out = append(out[:i], out[i+1:]...)
	case "dup":
		out = append(out[:i+1], out[i:]...)
	case "empty":
		if out[i].wire == 2 {
			out[i].raw = nil
		} else {
			out[i].raw = []byte{0}
			out[i].wire = 0
		}
	case "rewire":
		// a length-delimited field offered as a varint and vice versa
		if out[i].wire == 2 {
			out[i].wire, out[i].raw = 0, []byte{1}
		} else {
			out[i].wire, out[i].raw = 2, []byte{0x31}
		}
	case "swap":
		j := mod(which+1, len(out))
		out[i], out[j] = out[j], out[i]
	case "renumber":
		out[i].num += 7
	}
	return out
}

// structMutateTx rewrites a length-prefixed amino StdTx: level "tx" mutates a field of the transaction,
// level "msg" a field of the message inside it (the 4 prefix bytes of the registered type are kept).
func structMutateTx(bz []byte, level, op string, which int) ([]byte, bool) {
	l, n := binary.Uvarint(bz)
	if n <= 0 || uint64(len(bz)-n) != l {
		return nil, false
	}
	// a registered concrete type carries its 4 prefix bytes even at the top level
	pre := []byte{}
	top, ok := parseAminoFields(bz[n:])
	if (!ok || len(top) == 0) && len(bz) >= n+4 {
		pre = bz[n : n+4]
		top, ok = parseAminoFields(bz[n+4:])
	}
	if !ok || len(top) == 0 {
		return nil, false
	}
	if level == "tx" {
		top = mutateFields(top, op, which)
	} else {
		mi := -1
		for i, f := range top {
			if f.num == 1 && f.wire == 2 && len(f.raw) >= 4 {
				mi = i
				break
			}
		}
		if mi < 0 {
			return nil, false
		}
		inner, ok := parseAminoFields(top[mi].raw[4:])
		if !ok {
			return nil, false
		}
		inner = mutateFields(inner, op, which)
		top[mi].raw = append(append([]byte{}, top[mi].raw[:4]...), encodeAminoFields(inner)...)
	}
	body := append(append([]byte{}, pre...), encodeAminoFields(top)...)
	var tmp [binary.MaxVarintLen64]byte
	pn := binary.PutUvarint(tmp[:], uint64(len(body)))
	return append(append([]byte{}, tmp[:pn]...), body...), true
}
