package props

// C05 — Validator updates keep Tendermint's set equal to the staked set.
// C06 — Validator lifecycle: legal transitions only, and unstaking pays out on time.
// C09 — Jailed validators have no power; unjail and tombstone rules hold.

import (
	"bytes"
	"encoding/binary"
	"encoding/hex"
	"fmt"
	"math/big"
	"sort"
	"time"

	abci "github.com/tendermint/tendermint/abci/types"
	tmtypes "github.com/tendermint/tendermint/types"
	"pgregory.net/rapid"

	sdk "github.com/pokt-network/posmint/types"
	authtypes "github.com/pokt-network/posmint/x/auth/types"
	postypes "github.com/pokt-network/posmint/x/pos/types"
)

func (ch *chain) posParamUint64(v *chainView, key string) uint64 {
	var x uint64
	if bz, ok := v.Raw[sdk.ParamsKey.Name()]["pos/"+key]; ok {
		_ = simCdc.UnmarshalJSON(bz, &x)
	}
	return x
}

// expectedSet: the MaxValidators highest-powered validators that are staked and not jailed, power
// floor(stake/10^6), ties broken by address (ascending).
func expectedSet(v *chainView, maxVals uint64) map[string]int64 {
	type cand struct {
		addr  string
		power int64
	}
	var cs []cand
	for a, val := range v.Vals {
		if val.Status == sdk.Staked && !val.Jailed {
			p := new(big.Int).Quo(val.StakedTokens.BigInt(), bigTen6)
			if p.Sign() > 0 && p.IsInt64() {
				cs = append(cs, cand{a, p.Int64()})
			}
		}
	}
	sort.Slice(cs, func(i, j int) bool {
		if cs[i].power != cs[j].power {
			return cs[i].power > cs[j].power
		}
		return cs[i].addr < cs[j].addr
	})
	if uint64(len(cs)) > maxVals {
		cs = cs[:maxVals]
	}
	out := map[string]int64{}
	for _, c := range cs {
		out[c.addr] = c.power
	}
	return out
}

func fmtSet(m map[string]int64) string {
	var ks []string
	for k := range m {
		ks = append(ks, k)
	}
	sort.Strings(ks)
	s := "{"
	for _, k := range ks {
		s += fmt.Sprintf("%s:%d ", k[:8], m[k])
	}
	return s + "}"
}

// ---------------------------------------------------------------------------------------------
// C05

type c05Oracle struct {
	c           *Case
	tmReal      *tmtypes.ValidatorSet
	causes      map[string]bool
	consecutive int
	maxConsec   int
	overCap     bool
	stopped     bool
	aborted     bool
}

func (o *c05Oracle) after(ch *chain, ci *callInfo) *Violation {
	if ci.Panic != nil {
		if ci.Kind == "end" {
			sig := "C05/endblock-panics: " + panicClass(ci.Panic)
			if o.c.Known(sig) {
				o.aborted = true
				return nil
			}
			return violf(sig, "EndBlock at height %d did not complete: %s", ci.Height, firstLines(fmt.Sprint(ci.Panic), 6))
		}
		o.aborted = true
		o.c.Label("panic:" + ci.Kind + ":" + panicClass(ci.Panic))
		return nil
	}
	if o.stopped || (ci.Kind != "initchain" && ci.Kind != "end") {
		return nil
	}
	var ups []abci.ValidatorUpdate
	if ci.Kind == "initchain" {
		ups = ci.Init.Validators
	} else {
		ups = ci.End.ValidatorUpdates
	}
	where := fmt.Sprintf("%s at height %d (block %d)", ci.Kind, ci.Height, ci.BlockIx)
	if ch.applyErr != "" {
		return violf("C05/update-not-applicable", "%s: the update batch %s cannot be applied to Tendermint's set: %s", where, fmtUpdates(ups), ch.applyErr)
	}
	if ch.emptied {
		// Tendermint refuses a batch that empties its set; the statement does not forbid producing one
		o.c.Label("batch-would-empty-the-set")
		o.stopped = true
		return nil
	}
	// the real Tendermint validator set must accept the batch too
	changes, err := tmtypes.PB2TM.ValidatorUpdates(ups)
	if err != nil {
		return violf("C05/update-not-applicable", "%s: undecodable update: %v", where, err)
	}
	if ci.Kind == "initchain" {
		res := catch(func() { o.tmReal = tmtypes.NewValidatorSet(changes) })
		if res.panicked {
			return violf("C05/update-not-applicable", "%s: tendermint cannot build the genesis validator set: %v", where, res.pv)
		}
	} else if len(changes) > 0 {
		if err := o.tmReal.UpdateWithChangeSet(changes); err != nil {
			return violf("C05/update-not-applicable", "%s: tendermint's ValidatorSet.UpdateWithChangeSet rejects %s: %v", where, fmtUpdates(ups), err)
		}
	}
	maxVals := ch.posParamUint64(ci.After, "MaxValidators")
	want := expectedSet(ci.After, maxVals)
	got := ch.latestSet.byAddr()
	if len(want) != len(got) {
		return violf("C05/set-differs", "%s: after applying %s Tendermint has %s; staked, unjailed top-%d is %s", where, fmtUpdates(ups), fmtSet(got), maxVals, fmtSet(want))
	}
	for a, p := range want {
		if got[a] != p {
			return violf("C05/set-differs", "%s: after applying %s Tendermint has %s; staked, unjailed top-%d is %s", where, fmtUpdates(ups), fmtSet(got), maxVals, fmtSet(want))
		}
	}
	// the real set agrees with the mirror
	for _, v := range o.tmReal.Validators {
		if got[hex.EncodeToString(v.Address)] != v.VotingPower {
			return violf("C05/harness-mirror", "mirror and tendermint set disagree on %X", v.Address)
		}
	}
	// classification
	cands := 0
	for _, val := range ci.After.Vals {
		if val.Status == sdk.Staked && !val.Jailed {
			cands++
		}
	}
	if uint64(cands) > maxVals {
		o.overCap = true
	}
	if ci.Kind == "end" {
		if len(ups) > 0 {
			o.consecutive++
			if o.consecutive > o.maxConsec {
				o.maxConsec = o.consecutive
			}
		} else {
			o.consecutive = 0
		}
	}
	return nil
}

func fmtUpdates(ups []abci.ValidatorUpdate) string {
	s := "["
	for _, u := range ups {
		s += fmt.Sprintf("%x..:%d ", u.PubKey.Data[:4], u.Power)
	}
	return s + "]"
}

// ---------------------------------------------------------------------------------------------
// C06

type c06Oracle struct {
	c           *Case
	beginTime   map[string]time.Time // when the validator began unstaking
	unstaking   map[string]time.Duration
	transitions map[string]int
	matureSame  int
	aborted     bool
	minStake0   int64
}

func rankKeyFor(stake sdk.Int, addr []byte) []byte {
	power := new(big.Int).Quo(stake.BigInt(), bigTen6).Int64()
	key := make([]byte, 1+8+len(addr))
	key[0] = 0x23
	binary.BigEndian.PutUint64(key[1:9], uint64(power))
	for i, b := range addr {
		key[9+i] = ^b
	}
	return key
}

func (o *c06Oracle) after(ch *chain, ci *callInfo) *Violation {
	if ci.Panic != nil {
		if ci.Kind == "end" {
			sig := "C06/endblock-panics: " + panicClass(ci.Panic)
			if o.c.Known(sig) {
				o.aborted = true
				return nil
			}
			return violf(sig, "EndBlock at height %d did not complete: %s", ci.Height, firstLines(fmt.Sprint(ci.Panic), 6))
		}
		o.aborted = true
		o.c.Label("panic:" + ci.Kind + ":" + panicClass(ci.Panic))
		return nil
	}
	after := ci.After
	if after == nil {
		return nil
	}
	where := fmt.Sprintf("%s at height %d (block %d tx %d)", ci.Kind, ci.Height, ci.BlockIx, ci.TxIx)
	minStake := ch.posParamInt64(after, "StakeMinimum")
	unstakingTime := time.Duration(ch.posParamInt64(after, "UnstakingTime"))

	// (2) indexes, after every call
	wantRank := map[string]string{}
	for a, val := range after.Vals {
		if val.Status == sdk.Staked && !val.Jailed {
			wantRank[string(rankKeyFor(val.StakedTokens, val.Address))] = a
		}
	}
	gotRank := map[string]string{}
	for _, r := range after.Rank {
		gotRank[string(r.Key)] = r.Addr
	}
	for k, a := range gotRank {
		if wantRank[k] != a {
			val, ok := after.Vals[a]
			return violf("C06/power-index-stale-entry", "%s: power index holds key %x -> %s but that validator is exists=%v status=%v jailed=%v stake=%v", where, k, a, ok, val.Status, val.Jailed, val.StakedTokens)
		}
	}
	for k, a := range wantRank {
		if gotRank[k] != a {
			return violf("C06/power-index-missing-entry", "%s: staked, unjailed validator %s (stake %s) has no power-index entry under its current stake", where, a, after.Vals[a].StakedTokens)
		}
	}
	queued := map[string]time.Time{}
	for _, q := range after.Unstaking {
		for _, a := range q.Addrs {
			if val, ok := after.Vals[a]; ok && val.Status == sdk.Unstaking && val.UnstakingCompletionTime.Equal(q.Time) {
				queued[a] = q.Time
			}
		}
	}
	for a, val := range after.Vals {
		if val.Status == sdk.Unstaking {
			if _, ok := queued[a]; !ok {
				return violf("C06/unstaking-not-queued", "%s: unstaking validator %s (completion %s) is not in the unstaking queue at that time", where, a, val.UnstakingCompletionTime)
			}
		}
		// (4) minimum stake while the parameter is unchanged
		if val.Status != sdk.Unstaked && minStake == o.minStake0 && val.StakedTokens.LT(sdk.NewInt(minStake)) {
			return violf("C06/below-minimum-stake", "%s: validator %s has status %v with stake %s below the minimum %d", where, a, val.Status, val.StakedTokens, minStake)
		}
	}
	if ci.Kind == "end" {
		for _, q := range after.Unstaking {
			if !q.Time.After(ci.Time) {
				return violf("C06/queue-entry-survives-maturity", "%s: unstaking-queue entry for %s (<= block time %s) survived EndBlock: %v", where, q.Time, ci.Time, q.Addrs)
			}
		}
	}
	if ci.Before == nil || ci.Kind == "initchain" || ci.Kind == "restart" {
		if ci.Kind == "initchain" {
			o.minStake0 = minStake
		}
		return nil
	}
	before := ci.Before
	// (1) legal edges
	matured := 0
	addrs := map[string]bool{}
	for a := range before.Vals {
		addrs[a] = true
	}
	for a := range after.Vals {
		addrs[a] = true
	}
	var sorted []string
	for a := range addrs {
		sorted = append(sorted, a)
	}
	sort.Strings(sorted)
	for _, a := range sorted {
		bv, hadB := before.Vals[a]
		av, hasA := after.Vals[a]
		signerIs := func() bool {
			return ci.Kind == "tx" && ci.Deliver.Code == 0 && ci.Built != nil && ci.Built.Msg != nil && hex.EncodeToString(ci.Built.Msg.GetSigner()) == a
		}
		switch {
		case !hadB && hasA, hadB && hasA && bv.Status == sdk.Unstaked && av.Status == sdk.Staked:
			m, ok := ci.Built.msgStake()
			if !signerIs() || !ok {
				return violf("C06/illegal-transition", "%s: validator %s became %v without its own accepted MsgStake", where, a, av.Status)
			}
			if av.Status != sdk.Staked {
				return violf("C06/illegal-transition", "%s: new validator %s has status %v", where, a, av.Status)
			}
			if m.Value.LT(sdk.NewInt(minStake)) {
				return violf("C06/stake-below-minimum-accepted", "%s: MsgStake of %s accepted below the minimum %d", where, m.Value, minStake)
			}
			// "by its own funded stake": the record holds what this message funded, nothing inherited
			if !av.StakedTokens.Equal(m.Value) {
				return violf("C06/stake-not-what-was-funded", "%s: validator %s staked %s and is recorded with %s (its record held %s before)", where, a, m.Value, av.StakedTokens, bv.StakedTokens)
			}
			o.transitions[a]++
		case hadB && hasA && bv.Status == sdk.Staked && av.Status == sdk.Unstaking:
			if _, ok := ci.Built.msgUnstake(); !signerIs() || !ok {
				return violf("C06/illegal-transition", "%s: validator %s went staked -> unstaking without its own accepted MsgBeginUnstake", where, a)
			}
			if !av.UnstakingCompletionTime.Equal(ci.Time.Add(unstakingTime)) {
				return violf("C06/completion-time", "%s: validator %s began unstaking at %s with UnstakingTime %s but completion is %s", where, a, ci.Time, unstakingTime, av.UnstakingCompletionTime)
			}
			o.beginTime[a], o.unstaking[a] = ci.Time, unstakingTime
			o.transitions[a]++
		case hadB && !hasA:
			if ci.Kind != "end" || bv.Status != sdk.Unstaking {
				return violf("C06/illegal-transition", "%s: validator %s (status %v) was removed", where, a, bv.Status)
			}
			due := o.beginTime[a].Add(o.unstaking[a])
			if bt, ok := o.beginTime[a]; ok && ci.Time.Before(due) {
				return violf("C06/unstake-paid-early", "%s: validator %s began unstaking at %s (UnstakingTime %s) but was released at block time %s", where, a, bt, o.unstaking[a], ci.Time)
			}
			addr, _ := hex.DecodeString(a)
			if rise := after.coinsOf(addr).Sub(before.coinsOf(addr)); !rise.Equal(bv.StakedTokens) {
				return violf("C06/unstake-payout", "%s: validator %s released with stake %s but its account rose by %s", where, a, bv.StakedTokens, rise)
			}
			delete(o.beginTime, a)
			o.transitions[a]++
			matured++
		case hadB && hasA && bv.Status != sdk.Unstaked && av.Status == sdk.Unstaked:
			if ci.Kind != "begin" {
				return violf("C06/illegal-transition", "%s: validator %s went %v -> unstaked outside BeginBlock (forced unstake happens there)", where, a, bv.Status)
			}
			delete(o.beginTime, a)
			o.transitions[a]++
		case hadB && hasA && bv.Status != av.Status:
			return violf("C06/illegal-transition", "%s: validator %s went %v -> %v", where, a, bv.Status, av.Status)
		case hadB && hasA && !bv.StakedTokens.Equal(av.StakedTokens):
			if av.StakedTokens.GT(bv.StakedTokens) || ci.Kind != "begin" {
				return violf("C06/stake-changed", "%s: validator %s stake changed %s -> %s without a status change", where, a, bv.StakedTokens, av.StakedTokens)
			}
		}
	}
	if matured >= 2 {
		o.matureSame++
	}
	// (3) never later: at EndBlock nobody whose time has come may still be unstaking
	if ci.Kind == "end" {
		for a, val := range after.Vals {
			if val.Status == sdk.Unstaking {
				if bt, ok := o.beginTime[a]; ok && !ci.Time.Before(bt.Add(o.unstaking[a])) {
					return violf("C06/unstake-paid-late", "%s: validator %s began unstaking at %s (UnstakingTime %s) and is still unstaking at block time %s", where, a, bt, o.unstaking[a], ci.Time)
				}
			}
		}
	}
	return nil
}

func (bt *builtTx) msgStake() (postypes.MsgStake, bool) {
	if bt == nil || bt.Msg == nil {
		return postypes.MsgStake{}, false
	}
	m, ok := bt.Msg.(postypes.MsgStake)
	return m, ok
}

func (bt *builtTx) msgUnstake() (postypes.MsgBeginUnstake, bool) {
	if bt == nil || bt.Msg == nil {
		return postypes.MsgBeginUnstake{}, false
	}
	m, ok := bt.Msg.(postypes.MsgBeginUnstake)
	return m, ok
}

// ---------------------------------------------------------------------------------------------
// C09

type c09Oracle struct {
	c            *Case
	justUnjailed map[string]bool
	convicted    map[string]bool
	// jailed-until per address as the statement defines it, kept by the oracle itself: the block time of the
	// downtime jailing plus the jail duration in force then; year 9999 after a conviction; the epoch before
	// any jailing. The stored signing info is not consulted (it is part of what is being judged).
	until       map[string]time.Time
	jailedModel map[string]bool
	jailings    int
	refused     int
	accepted    int
	stopped     bool
	aborted     bool
}

func (o *c09Oracle) after(ch *chain, ci *callInfo) *Violation {
	if ci.Panic != nil {
		o.aborted = true
		o.c.Label("panic:" + ci.Kind + ":" + panicClass(ci.Panic))
		return nil
	}
	after := ci.After
	if after == nil || ci.Before == nil {
		return nil
	}
	before := ci.Before
	where := fmt.Sprintf("%s at height %d (block %d tx %d)", ci.Kind, ci.Height, ci.BlockIx, ci.TxIx)
	minStake := ch.posParamInt64(before, "StakeMinimum")
	// the jailed flag as the oracle knows it: raised by a jailing (or on a record that is created jailed), lowered
	// only by an accepted unjail of that validator, forgotten when the record is removed
	unjailedNow := ""
	if m, ok := ci.Built.msgUnjail(); ok && ci.Kind == "tx" && ci.Deliver.Code == 0 {
		unjailedNow = hex.EncodeToString(m.ValidatorAddr)
	}
	for a := range o.jailedModel {
		if _, ok := after.Vals[a]; !ok {
			delete(o.jailedModel, a)
		}
	}
	for a, av := range after.Vals {
		bv, had := before.Vals[a]
		switch {
		case av.Jailed && (!had || !bv.Jailed):
			o.jailedModel[a] = true
		case a == unjailedNow:
			delete(o.jailedModel, a)
		case o.jailedModel[a] && !av.Jailed:
			return violf("C09/jailed-flag-cleared-without-unjail", "%s: validator %s was jailed and is no longer marked jailed although no unjail request of it was accepted (status %v, stake %s)", where, a, av.Status, av.StakedTokens)
		}
	}
	switch ci.Kind {
	case "begin":
		// jailings, and convictions for double signing
		var maxAge int64
		if bz, ok := before.Raw[sdk.ParamsKey.Name()]["pos/MaxEvidenceAge"]; ok {
			_ = simCdc.UnmarshalJSON(bz, &maxAge)
		}
		var jailDur int64
		if bz, ok := before.Raw[sdk.ParamsKey.Name()]["pos/DowntimeJailDuration"]; ok {
			_ = simCdc.UnmarshalJSON(bz, &jailDur)
		}
		for a, av := range after.Vals {
			if bv, ok := before.Vals[a]; ok && !bv.Jailed && av.Jailed {
				o.jailings++
				// downtime unless the evidence loop below finds a conviction
				o.until[a] = ci.Time.Add(time.Duration(jailDur))
			}
		}
		for _, ev := range ci.Req.ByzantineValidators {
			a := hex.EncodeToString(ev.Validator.Address)
			bv, ok := before.Vals[a]
			if !ok || bv.Status == sdk.Unstaked || before.Sign[a].Tombstoned || int64(ci.Time.Sub(ev.Time)) > maxAge || o.convicted[a] {
				continue
			}
			// a slash earlier in this BeginBlock (queued burn, downtime) may already have force-unstaked it
			if av, ok := after.Vals[a]; ok && !after.Sign[a].Tombstoned && av.Status == sdk.Unstaked && !bv.StakedTokens.IsZero() && burnedBefore(ci, a) {
				continue
			}
			o.convicted[a] = true
			o.until[a] = postypes.DoubleSignJailEndTime
			si := after.Sign[a]
			av := after.Vals[a]
			if !si.Tombstoned || !av.Jailed || !si.JailedUntil.Equal(postypes.DoubleSignJailEndTime) {
				return violf("C09/double-sign-not-permanent", "%s: validator %s convicted of double signing: tombstoned=%v jailed=%v jailedUntil=%s", where, a, si.Tombstoned, av.Jailed, si.JailedUntil)
			}
		}
	case "tx":
		m, ok := ci.Built.msgUnjail()
		if !ok {
			return nil
		}
		feeAddr := authtypes.NewModuleAddress(authtypes.FeeCollectorName)
		antePassed := after.coinsOf(feeAddr).GT(before.coinsOf(feeAddr))
		a := hex.EncodeToString(m.ValidatorAddr)
		bv, exists := before.Vals[a]
		si, hasInfo := before.Sign[a]
		until, jailedBefore := o.until[a]
		if !jailedBefore {
			until = time.Unix(0, 0)
		}
		admissible := exists && bv.Jailed && !bv.StakedTokens.LT(sdk.NewInt(minStake)) && hasInfo && !si.Tombstoned && !o.convicted[a] && !ci.Time.Before(until)
		if ci.Deliver.Code == 0 {
			if !admissible {
				return violf("C09/unjail-accepted", "%s: unjail of %s accepted although exists=%v jailed=%v stake=%v min=%d tombstoned=%v convicted=%v jailed-until=%s (stored %s) blockTime=%s",
					where, a, exists, bv.Jailed, bv.StakedTokens, minStake, si.Tombstoned, o.convicted[a], until, si.JailedUntil, ci.Time)
			}
			if after.Vals[a].Jailed {
				return violf("C09/unjail-no-effect", "%s: accepted unjail left %s jailed", where, a)
			}
			o.accepted++
			if after.Vals[a].Status == sdk.Staked {
				o.justUnjailed[a] = true
			}
		} else if antePassed {
			if admissible {
				return violf("C09/unjail-refused", "%s: admissible unjail of %s refused: code %d %s", where, a, ci.Deliver.Code, firstLines(ci.Deliver.Log, 3))
			}
			if after.Vals[a].Jailed != bv.Jailed {
				return violf("C09/refused-unjail-changed-state", "%s: refused unjail changed the jailed flag of %s", where, a)
			}
			o.refused++
		}
	case "end":
		// "from the validator-set update following its jailing": whatever else is wrong with a batch, it must carry a
		// zero-power entry for every jailed validator Tendermint still has (judged on the batch itself, so that it
		// does not depend on the batch being applicable as a whole)
		if !o.stopped && ch.setBeforeEnd != nil {
			had := ch.setBeforeEnd.byAddr()
			zeroed := map[string]bool{}
			for _, u := range ci.End.ValidatorUpdates {
				if u.Power == 0 {
					if tv, ok := ch.setBeforeEnd[hex.EncodeToString(u.PubKey.Data)]; ok {
						zeroed[tv.Addr] = true
					}
				}
			}
			var jailedAddrs []string
			for a := range o.jailedModel {
				jailedAddrs = append(jailedAddrs, a)
			}
			sort.Strings(jailedAddrs)
			for _, a := range jailedAddrs {
				if p, in := had[a]; in && !zeroed[a] && !ch.emptied {
					return violf("C09/jailed-validator-keeps-power", "%s: validator %s is jailed and Tendermint holds it with power %d, but this block's update batch %s has no zero-power entry for it", where, a, p, fmtUpdates(ci.End.ValidatorUpdates))
				}
			}
		}
		if o.stopped || ch.applyErr != "" {
			o.stopped = true // C05's subject; the mirror is no longer meaningful
			return nil
		}
		if ch.emptied {
			o.stopped = true
			return nil
		}
		set := ch.latestSet.byAddr()
		maxVals := ch.posParamUint64(after, "MaxValidators")
		want := expectedSet(after, maxVals)
		for a, val := range after.Vals {
			if val.Jailed {
				if p, in := set[a]; in {
					return violf("C09/jailed-validator-has-power", "%s: jailed validator %s is in Tendermint's set with power %d after this block's updates", where, a, p)
				}
			}
			if o.convicted[a] {
				if p, in := set[a]; in {
					return violf("C09/tombstoned-validator-has-power", "%s: validator %s was convicted of double signing but is in Tendermint's set with power %d", where, a, p)
				}
			}
		}
		for a := range o.justUnjailed {
			val, ok := after.Vals[a]
			if ok && val.Status == sdk.Staked && !val.Jailed {
				if wp, inTop := want[a]; inTop && set[a] != wp {
					return violf("C09/unjailed-validator-power", "%s: validator %s was unjailed with stake %s but Tendermint's set gives it power %d, expected %d", where, a, val.StakedTokens, set[a], wp)
				}
			}
		}
		o.justUnjailed = map[string]bool{}
	}
	return nil
}

// burnedBefore reports whether validator a was slashed earlier in the same BeginBlock (queued burn or
// downtime), which may already have force-unstaked it before the evidence was looked at.
func burnedBefore(ci *callInfo, a string) bool {
	if _, ok := ci.Before.Burns[a]; ok {
		return true
	}
	for _, ev := range ci.Begin.Events {
		if ev.Type != postypes.EventTypeSlash {
			continue
		}
		hit, downtime := false, false
		for _, at := range ev.Attributes {
			if string(at.Key) == postypes.AttributeKeyAddress && string(at.Value) == a {
				hit = true
			}
			if string(at.Key) == postypes.AttributeKeyReason && string(at.Value) == postypes.AttributeValueMissingSignature {
				downtime = true
			}
		}
		if hit && downtime {
			return true
		}
	}
	return false
}

func (bt *builtTx) msgUnjail() (postypes.MsgUnjail, bool) {
	if bt == nil || bt.Msg == nil {
		return postypes.MsgUnjail{}, false
	}
	m, ok := bt.Msg.(postypes.MsgUnjail)
	return m, ok
}

// ---------------------------------------------------------------------------------------------
// profiles and registration

var valsetKinds = []string{"stake", "stake", "stake", "unstake", "unstake", "unjail", "unjail", "burn", "burn", "send", "award", "param"}

var c05Profile = &histProfile{ScriptGov: []string{"lowermax", "lowermax", "raisemax", "raisemin", "lowermin"}, MaxBlocks: 24, MinBlocksOf: []int{3, 8, 14}, Evidence: 4, Missed: 1, Restart: 0, MaxTxs: 4, TxKinds: valsetKinds, Scripts: true, Batches: true, Anchor: true, OwnerBias: 3,
	MaxVals: []uint64{1, 2, 3, 5, 100000}, Windows: []int64{10, 10, 14}}

func genValset(pr *histProfile, noMinChange bool) func(t *rapid.T, tier string) interface{} {
	return func(t *rapid.T, tier string) interface{} {
		p := *pr
		if tier == "thorough" {
			p.MaxBlocks = pr.MaxBlocks * 2
		}
		h := genHistory(t, &p)
		if noMinChange {
			for bi := range h.Blocks {
				for ti := range h.Blocks[bi].Txs {
					if h.Blocks[bi].Txs[ti].Key == "pos/StakeMinimum" {
						h.Blocks[bi].Txs[ti].Key = "pos/MaxValidators"
						h.Blocks[bi].Txs[ti].Str = `"3"`
					}
				}
			}
		}
		return h
	}
}

func execC05(prog interface{}, c *Case) *Violation {
	ch, v := newChain(prog.(*hProg), c)
	if v != nil || ch == nil {
		return v
	}
	o := &c05Oracle{c: c, causes: map[string]bool{}}
	if v := ch.run(o); v != nil {
		return v
	}
	if o.aborted {
		c.Label("aborted-by-panic")
	}
	if o.overCap {
		c.Label("candidates-exceed-MaxValidators")
	}
	if o.maxConsec >= 3 {
		c.Label("3-consecutive-blocks-with-updates")
	}
	if o.overCap || o.maxConsec >= 3 {
		c.NonTrivial()
	}
	return nil
}

func execC06(prog interface{}, c *Case) *Violation {
	ch, v := newChain(prog.(*hProg), c)
	if v != nil || ch == nil {
		return v
	}
	o := &c06Oracle{c: c, beginTime: map[string]time.Time{}, unstaking: map[string]time.Duration{}, transitions: map[string]int{}}
	if v := ch.run(o); v != nil {
		return v
	}
	if o.aborted {
		c.Label("aborted-by-panic")
	}
	three := false
	for _, n := range o.transitions {
		if n >= 3 {
			three = true
		}
	}
	if three {
		c.Label("validator-with-3-transitions")
	}
	if o.matureSame > 0 {
		c.Label("2-validators-mature-in-one-block")
	}
	if three || o.matureSame > 0 {
		c.NonTrivial()
	}
	return nil
}

func execC09(prog interface{}, c *Case) *Violation {
	ch, v := newChain(prog.(*hProg), c)
	if v != nil || ch == nil {
		return v
	}
	o := &c09Oracle{c: c, justUnjailed: map[string]bool{}, convicted: map[string]bool{}, until: map[string]time.Time{}, jailedModel: map[string]bool{}}
	if v := ch.run(o); v != nil {
		return v
	}
	if o.aborted {
		c.Label("aborted-by-panic")
	}
	if o.jailings > 0 {
		c.Label("jailing")
	}
	if o.refused > 0 {
		c.Label("refused-unjail")
	}
	if o.accepted > 0 {
		c.Label("accepted-unjail")
	}
	if len(o.convicted) > 0 {
		c.Label("double-sign-conviction")
	}
	if o.jailings > 0 && o.refused > 0 && o.accepted > 0 {
		c.NonTrivial()
	}
	return nil
}

var _ = bytes.Equal

func init() {
	c06Profile := &histProfile{ScriptGov: []string{"lowermax", "raisemax", "raisemin", "lowermin"}, MaxBlocks: 24, MinBlocksOf: []int{3, 8, 14}, Evidence: 5, Missed: 2, Restart: 0, MaxTxs: 5, FixedMin: true, Scripts: true, Batches: true, Anchor: true, OwnerBias: 3,
		TxKinds: []string{"stake", "stake", "stake", "unstake", "unstake", "unstake", "unjail", "burn", "burn", "send", "award", "param", "param"}, Windows: []int64{10, 10, 14}}
	c09Profile := &histProfile{ScriptGov: []string{"raisemin", "lowermin"}, MaxBlocks: 30, MinBlocksOf: []int{6, 12, 20}, Evidence: 5, Missed: 1, Restart: 0, MaxTxs: 4, Scripts: true, Batches: true, Anchor: true, OwnerBias: 3,
		TxKinds: []string{"unjail", "unjail", "unjail", "stake", "unstake", "burn", "send", "param"}, Windows: []int64{10, 10, 10}, MinSigned: []string{"0.5", "0.5", "0.9", "1", "0.05"},
		ScriptTemplates: [][]string{
			{"downtime", "unjail!", "wait", "unjail"},
			{"downtime", "stake!", "unjail!", "wait", "unjail"},
			{"downtime", "burn1!", "wait!", "stake!", "unjail!", "wait", "unjail"},
			{"downtime", "evidence!", "wait", "unjail"},
			{"evidence", "stake!", "unjail!", "wait", "unjail"},
			{"downtime", "unstake!", "unjail!", "wait", "unjail"},
			{"burn1", "wait!", "stake!", "downtime", "unjail!", "wait", "unjail"},
			{"downtime", "burn!", "unjail!", "stake!", "unjail!"},
			// the minimum stake moves while the validator sits in jail
			{"downtime", "raisemin!", "unjail!", "wait", "unjail"},
			{"downtime", "raisemin!", "wait", "unjail", "lowermin!", "unjail!"},
			{"raisemin", "downtime", "lowermin!", "wait", "unjail"},
			{"burn", "raisemin!", "downtime", "wait", "unjail"},
		}}
	register(&PropDef{ID: "C05",
		Rule: "chain histories biased to staking-state changes with MaxValidators in {1,2,3,5,100000} (also changed by governance), equal-power groups, powers straddling the cut-off, jail/unjail, slashes, " +
			"burns, forced unstakes and maturity; InitChain's and every EndBlock's update batch is applied to a mirror of Tendermint's set (no key twice, no removal of an absent key, no negative power) and to a " +
			"real tendermint ValidatorSet.UpdateWithChangeSet, then the mirror must equal the MaxValidators highest-powered staked, unjailed validators (power floor(stake/10^6), ties by address). " +
			"Non-trivial = >=3 consecutive blocks with non-empty updates, or more candidates than MaxValidators; distinctness = hash of the program",
		Gen: genValset(c05Profile, false), New: func() interface{} { return &hProg{} }, Exec: execC05, RecordCur: func(interface{}) bool { return true },
		Assum: []string{"a batch that would empty Tendermint's set is refused by Tendermint and ends the comparison for that history (recorded as a label, not a failure)"}})
	register(&PropDef{ID: "C06",
		Rule: "chain histories with interleavings per validator (stake, begin-unstake, slash while unstaking, maturity, jail, unjail, forced unstake, re-stake), UnstakingTime in {0,1 s,1 min,1 h,3 weeks}, " +
			"several validators maturing in one block; StakeMinimum is not changed; after every ABCI call: status changes only along the legal edges with their stated cause, power index == exactly the " +
			"staked unjailed validators under their current stake, unstaking validators queued at their completion time, no matured queue entry survives EndBlock, release at the first block at/after " +
			"begin+UnstakingTime with the whole stake, stake >= minimum for every validator that is not unstaked. Non-trivial = some validator makes >=3 transitions or >=2 validators mature in one block; " +
			"distinctness = hash of the program",
		Gen: genValset(c06Profile, false), New: func() interface{} { return &hProg{} }, Exec: execC06, RecordCur: func(interface{}) bool { return true },
		Assum: []string{"stale queue entries for validators that are no longer unstaking are allowed (the statement only requires unstaking validators to be queued)"}})
	register(&PropDef{ID: "C09",
		Rule: "chain histories with jailing by downtime (10-block window, missed votes in every block) and by double-sign evidence, unjail requests at all times relative to jailed-until from jailed / " +
			"not jailed / unknown / unstaking / tombstoned / under-minimum validators; oracle: jailed or convicted validators are absent from the mirrored Tendermint set after every EndBlock, an " +
			"ante-accepted unjail is accepted iff record exists, jailed, stake >= minimum, block time >= jailed-until and not tombstoned, an accepted unjail of a staked validator gives it exactly " +
			"floor(stake/10^6) at the next EndBlock (if inside the cut-off), a conviction tombstones and jails until year 9999. Non-trivial = a jailing, a refused and an accepted unjail in one history; " +
			"distinctness = hash of the program",
		Gen: genValset(c09Profile, false), New: func() interface{} { return &hProg{} }, Exec: execC09, RecordCur: func(interface{}) bool { return true },
		Assum: []string{"whether the update batches are applicable at all is C05's subject; once a batch is not, this check stops comparing the set for that history"}})
}
