package props

// C01 — Replicated execution is deterministic. Differential twins: instance A (restarted at generated
// points) and instance B (another pruning configuration, never restarted, receiving additional
// CheckTx / Simulate / Query traffic) get the same consensus requests; every consensus-relevant
// response and the app hash at every height must be identical.

import (
	"bytes"
	"fmt"

	abci "github.com/tendermint/tendermint/abci/types"
	"pgregory.net/rapid"

	stypes "github.com/pokt-network/posmint/store/types"
)

type c01Oracle struct {
	c         *Case
	b         *simApp
	bdb       *crashDB
	accepted  int
	setChange bool
	restarts  int
	ended     bool
	extra     int
	outOfGas  int
}

func evStr(evs []abci.Event) string {
	s := ""
	for _, e := range evs {
		s += e.Type + "{"
		for _, a := range e.Attributes {
			s += fmt.Sprintf("%s=%s;", a.Key, a.Value)
		}
		s += "} "
	}
	return s
}

func updStr(ups []abci.ValidatorUpdate) string {
	s := ""
	for _, u := range ups {
		s += fmt.Sprintf("%x:%d ", u.PubKey.Data, u.Power)
	}
	return s
}

func (o *c01Oracle) after(ch *chain, ci *callInfo) *Violation {
	if o.ended {
		return nil
	}
	where := fmt.Sprintf("%s at height %d (block %d tx %d)", ci.Kind, ci.Height, ci.BlockIx, ci.TxIx)
	diverge := func(what, a, b string) *Violation {
		return violf("C01/divergence/"+ci.Kind+"-"+what, "%s: the two instances disagree on %s:\n A: %s\n B: %s", where, what, a, b)
	}
	bothPanic := func(pb interface{}) (*Violation, bool) {
		if ci.Panic == nil && pb == nil {
			return nil, false
		}
		if ci.Panic != nil && pb != nil && panicClass(ci.Panic) == panicClass(pb) {
			o.ended = true
			o.c.Label("both-instances-panic:" + ci.Kind)
			return nil, true
		}
		return violf("C01/divergence/"+ci.Kind+"-panic", "%s: instance A panic=%v, instance B panic=%v", where, ci.Panic, pb), true
	}
	switch ci.Kind {
	case "initchain":
		var rb abci.ResponseInitChain
		pb := safeCall(func() {
			rb = o.b.InitChain(abci.RequestInitChain{ChainId: simChainID, Time: simGenesisTime, ConsensusParams: &abci.ConsensusParams{
				Block: &abci.BlockParams{MaxBytes: 1 << 20, MaxGas: ch.p.Gen.maxGas()}, Evidence: &abci.EvidenceParams{MaxAge: 100000},
				Validator: &abci.ValidatorParams{PubKeyTypes: []string{"ed25519"}}}})
		})
		if v, stop := bothPanic(pb); stop {
			return v
		}
		if updStr(ci.Init.Validators) != updStr(rb.Validators) {
			return diverge("validators", updStr(ci.Init.Validators), updStr(rb.Validators))
		}
	case "begin":
		var rb abci.ResponseBeginBlock
		pb := safeCall(func() { rb = o.b.BeginBlock(ci.Req) })
		if v, stop := bothPanic(pb); stop {
			return v
		}
		if evStr(ci.Begin.Events) != evStr(rb.Events) {
			return diverge("events", evStr(ci.Begin.Events), evStr(rb.Events))
		}
	case "tx":
		// extra read-only traffic for B only
		if ci.Tx.Mode == "check" || ci.Tx.Mode == "recheck" {
			typ := abci.CheckTxType_New
			if ci.Tx.Mode == "recheck" {
				typ = abci.CheckTxType_Recheck
			}
			if p := safeCall(func() { o.b.CheckTx(abci.RequestCheckTx{Tx: ci.TxBytes, Type: typ}) }); p != nil {
				o.c.Label("extra-traffic-panicked")
			}
			o.extra++
		}
		if ci.Tx.Mode == "simulate" {
			if p := safeCall(func() { o.b.Query(abci.RequestQuery{Path: "/app/simulate", Data: ci.TxBytes}) }); p != nil {
				o.c.Label("extra-traffic-panicked")
			}
			o.extra++
		}
		var rb abci.ResponseDeliverTx
		pb := safeCall(func() { rb = o.b.DeliverTx(abci.RequestDeliverTx{Tx: ci.TxBytes}) })
		if v, stop := bothPanic(pb); stop {
			return v
		}
		ra := ci.Deliver
		if ra.Code != rb.Code || ra.Codespace != rb.Codespace {
			return diverge("code", fmt.Sprintf("%d/%s %s", ra.Code, ra.Codespace, firstLines(ra.Log, 2)), fmt.Sprintf("%d/%s %s", rb.Code, rb.Codespace, firstLines(rb.Log, 2)))
		}
		if !bytes.Equal(ra.Data, rb.Data) {
			return diverge("data", fmt.Sprintf("%x", ra.Data), fmt.Sprintf("%x", rb.Data))
		}
		if evStr(ra.Events) != evStr(rb.Events) {
			return diverge("events", evStr(ra.Events), evStr(rb.Events))
		}
		if ra.Code == 0 {
			o.accepted++
		}
		if ra.Code == 12 { // sdk.CodeOutOfGas
			o.outOfGas++
		}
	case "end":
		for _, q := range ch.p.Blocks[ci.BlockIx].Queries {
			q := q
			if p := safeCall(func() { o.b.Query(abci.RequestQuery{Path: q.Path, Data: ch.queryData(&q), Height: q.H}) }); p != nil {
				o.c.Label("extra-traffic-panicked")
			}
			o.extra++
		}
		var rb abci.ResponseEndBlock
		pb := safeCall(func() { rb = o.b.EndBlock(abci.RequestEndBlock{Height: ci.Height}) })
		if v, stop := bothPanic(pb); stop {
			return v
		}
		if updStr(ci.End.ValidatorUpdates) != updStr(rb.ValidatorUpdates) {
			return diverge("validator-updates", updStr(ci.End.ValidatorUpdates), updStr(rb.ValidatorUpdates))
		}
		if evStr(ci.End.Events) != evStr(rb.Events) {
			return diverge("events", evStr(ci.End.Events), evStr(rb.Events))
		}
		if len(rb.ValidatorUpdates) > 0 {
			o.setChange = true
		}
	case "commit":
		var rb abci.ResponseCommit
		pb := safeCall(func() { rb = o.b.Commit() })
		if v, stop := bothPanic(pb); stop {
			return v
		}
		if !bytes.Equal(ci.Commit.Data, rb.Data) {
			return diverge("app-hash", fmt.Sprintf("%X", ci.Commit.Data), fmt.Sprintf("%X", rb.Data))
		}
		// between blocks instance B also gets mempool-style traffic: a recheck of the block's transactions and a query
		for i, txb := range ch.blockTxs {
			if i >= 2 {
				break
			}
			txb := txb
			if p := safeCall(func() { o.b.CheckTx(abci.RequestCheckTx{Tx: txb, Type: abci.CheckTxType_Recheck}) }); p != nil {
				o.c.Label("extra-traffic-panicked")
			}
			o.extra++
		}
		if p := safeCall(func() {
			o.b.Query(abci.RequestQuery{Path: "/custom/pos/validators", Data: ch.queryData(&hQuery{Tmpl: "page", A: 1, B: 100})})
		}); p != nil {
			o.c.Label("extra-traffic-panicked")
		}
		ia, ib := ch.app.Info(abci.RequestInfo{}), o.b.Info(abci.RequestInfo{})
		if ia.LastBlockHeight != ci.Height || ib.LastBlockHeight != ci.Height || !bytes.Equal(ia.LastBlockAppHash, ci.Commit.Data) || !bytes.Equal(ib.LastBlockAppHash, ci.Commit.Data) {
			return diverge("info", fmt.Sprintf("%d %X", ia.LastBlockHeight, ia.LastBlockAppHash), fmt.Sprintf("%d %X", ib.LastBlockHeight, ib.LastBlockAppHash))
		}
	case "restart":
		o.restarts++
		ia, ib := ch.app.Info(abci.RequestInfo{}), o.b.Info(abci.RequestInfo{})
		if ia.LastBlockHeight != ib.LastBlockHeight || !bytes.Equal(ia.LastBlockAppHash, ib.LastBlockAppHash) {
			return violf("C01/divergence/restart-info", "%s: the reopened instance reports (%d, %X), the running one (%d, %X)", where, ia.LastBlockHeight, ia.LastBlockAppHash, ib.LastBlockHeight, ib.LastBlockAppHash)
		}
	}
	return nil
}

func genC01(t *rapid.T, tier string) interface{} {
	if rapid.IntRange(0, 7).Draw(t, "shape") == 0 {
		return &hProg{IterLag: genIterLag(t, tier)}
	}
	pr := &histProfile{Scripts: true, Batches: true, OwnerBias: 2, MaxBlocks: 20, MinBlocksOf: []int{2, 6, 12}, MaxTxs: 5, Evidence: 4, Missed: 2, Restart: 4, Queries: true, ExtraSign: true,
		TxKinds: defaultTxKinds, Modes: []string{"", "", "", "check", "recheck", "simulate", "simulate"}, WrongSigner: 12,
		Mutations: []string{"sigflip", "sigflip", "amount", "memo", "entropy", "swapkey"}}
	if tier == "thorough" {
		pr.MaxBlocks = 60
	}
	p := genHistory(t, pr)
	// 1 history in 3 runs under a block gas limit (a consensus parameter of the InitChain request): store accesses
	// are metered and a block that has used its gas refuses the rest of its transactions - on both instances alike
	if rapid.IntRange(0, 2).Draw(t, "gaslimited") == 0 {
		p.Gen.MaxGas = rapid.SampledFrom([]int64{1, 30000, 100000, 300000, 1000000, 3000000, 10000000}).Draw(t, "maxgas")
	}
	return p
}

func execC01(prog interface{}, c *Case) *Violation {
	p := prog.(*hProg)
	if p.IterLag != nil {
		return execIterLag(p.IterLag, c)
	}
	ch, v := newChain(p, c)
	if v != nil || ch == nil {
		return v
	}
	ch.deliverAll = true
	ch.noViews = true
	// instance B: own database, another pruning configuration
	pb := stypes.PruneNothing
	if p.Gen.KeepRecent == 0 && p.Gen.KeepEvery == 1 {
		pb = stypes.PruneSyncable
	}
	bdb := newCrashDB()
	b, err := newSimApp(bdb, pb, ch.gen)
	if err != nil {
		return violf("harness/newapp", "cannot build instance B: %v", err)
	}
	o := &c01Oracle{c: c, b: b, bdb: bdb}
	if v := ch.run(o); v != nil {
		return v
	}
	if p.Gen.ExtraSigning >= 3 {
		c.Label("genesis-with-map-typed-sections")
	}
	if p.Gen.MaxGas > 0 {
		c.Label("block-gas-limit")
		if o.outOfGas > 0 && o.accepted > 0 {
			c.Label("block-gas-limit-refused-some-and-admitted-some")
		}
	}
	if o.extra > 0 {
		c.Label("extra-read-only-traffic")
	}
	if o.accepted > 0 && o.setChange && o.restarts > 0 {
		c.NonTrivial()
	}
	return nil
}

func init() {
	register(&PropDef{ID: "C01",
		Rule: "chain histories (genesis incl. optional map-typed signing-info / missed-block sections with up to 8 foreign entries, 2-20 (thorough 60) blocks with votes, evidence, valid and invalid " +
			"transactions of every kind, awards and burns, arbitrary monotone times, restart points, two pruning configurations, 1 history in 3 under a block gas limit of 1..10^7 handed over at InitChain) executed on two independently built instances: A is stopped and reopened " +
			"from its database at the generated points, B never restarts, uses another pruning configuration and additionally receives CheckTx / Simulate / Query traffic; after every request the " +
			"consensus-relevant responses (InitChain validators, BeginBlock/EndBlock/DeliverTx events, codes, data, validator updates in order, Commit hash, Info) must be identical; a panic must be the " +
			"same panic in both. Go randomises map iteration per loop, so two in-process instances are independent samples of every map-ordered code path. Non-trivial = >=1 accepted transaction, " +
			">=1 validator-set change and >=1 restart. One case in eight is instead an iterator-schedule program on a pruning rootmulti/IAVL store (commits, optional reopen, a partially consumed " +
			"ascending/descending range iteration, Close, further pruning commits): the harness delays the traversal goroutine's database reads until Close() has returned and requires that no node read after that point " +
			"is deleted by the following commits (the schedule under which iavl panics in the goroutine and the replica dies); non-trivial there = a read was held at the gate, the iteration was not exhausted and a later commit pruned; " +
			"distinctness = hash of the program",
		Gen: genC01, New: func() interface{} { return &hProg{} }, Exec: execC01, RecordCur: func(interface{}) bool { return true },
		Assum: []string{"log strings and gas fields are not compared", "map-order and goroutine-timing nondeterminism is sampled (each case is an independent trial), not enumerated"}})
}
