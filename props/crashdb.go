package props

// crashDB: a dbm.DB over MemDB that counts durable write units (a batch Write/WriteSync, or a
// direct Set/Delete) and can "die" after k units: unit k and all later ones are dropped, as if the
// process had been killed just before issuing it. Batch writes are atomic (LevelDB contract).

import (
	"sort"
	"sync"

	dbm "github.com/tendermint/tm-db"
)

type crashUnit struct {
	ops     []crashOp // the operations in issue order (values included), so that a logged unit can be applied to a clone
	Sets    []string  // raw keys
	Deletes []string
}

// sortedMem has MemDB's semantics (iterators snapshot their keys at creation and read values live) but
// keeps its keys sorted: tm-db's MemDB scans and sorts every key for each iterator, which makes long
// histories quadratic (iavl opens a database iterator in every SaveVersion).
type sortedMem struct {
	mtx  sync.RWMutex
	vals map[string][]byte
	keys []string
}

func newSortedMem() *sortedMem { return &sortedMem{vals: map[string][]byte{}} }

func (m *sortedMem) Get(k []byte) []byte {
	m.mtx.RLock()
	defer m.mtx.RUnlock()
	return m.vals[string(k)]
}
func (m *sortedMem) Has(k []byte) bool {
	m.mtx.RLock()
	defer m.mtx.RUnlock()
	_, ok := m.vals[string(k)]
	return ok
}
func (m *sortedMem) Set(k, v []byte) {
	m.mtx.Lock()
	defer m.mtx.Unlock()
	ks := string(k)
	if _, ok := m.vals[ks]; !ok {
		i := sort.SearchStrings(m.keys, ks)
		m.keys = append(m.keys, "")
		copy(m.keys[i+1:], m.keys[i:])
		m.keys[i] = ks
	}
	if v == nil {
		v = []byte{}
	}
	m.vals[ks] = v
}
func (m *sortedMem) Delete(k []byte) {
	m.mtx.Lock()
	defer m.mtx.Unlock()
	ks := string(k)
	if _, ok := m.vals[ks]; !ok {
		return
	}
	delete(m.vals, ks)
	i := sort.SearchStrings(m.keys, ks)
	m.keys = append(m.keys[:i], m.keys[i+1:]...)
}
func (m *sortedMem) iter(start, end []byte, reverse bool) dbm.Iterator {
	m.mtx.RLock()
	defer m.mtx.RUnlock()
	lo := sort.SearchStrings(m.keys, string(start))
	hi := len(m.keys)
	if end != nil {
		hi = sort.SearchStrings(m.keys, string(end))
	}
	var keys []string
	if lo < hi {
		keys = append(keys, m.keys[lo:hi]...)
	}
	if reverse {
		for i, j := 0, len(keys)-1; i < j; i, j = i+1, j-1 {
			keys[i], keys[j] = keys[j], keys[i]
		}
	}
	return &sortedMemIter{m: m, keys: keys, start: start, end: end}
}
func (m *sortedMem) Iterator(s, e []byte) dbm.Iterator        { return m.iter(s, e, false) }
func (m *sortedMem) ReverseIterator(s, e []byte) dbm.Iterator { return m.iter(s, e, true) }

type sortedMemIter struct {
	m          *sortedMem
	keys       []string
	cur        int
	start, end []byte
}

func (it *sortedMemIter) Domain() ([]byte, []byte) { return it.start, it.end }
func (it *sortedMemIter) Valid() bool              { return it.cur < len(it.keys) }
func (it *sortedMemIter) Next() {
	if !it.Valid() {
		panic("sortedMemIter is invalid")
	}
	it.cur++
}
func (it *sortedMemIter) Key() []byte {
	if !it.Valid() {
		panic("sortedMemIter is invalid")
	}
	return []byte(it.keys[it.cur])
}
func (it *sortedMemIter) Value() []byte {
	if !it.Valid() {
		panic("sortedMemIter is invalid")
	}
	return it.m.Get([]byte(it.keys[it.cur]))
}
func (it *sortedMemIter) Close() { it.keys = nil }

type crashDB struct {
	mtx      sync.Mutex
	mem      *sortedMem
	units    int  // units issued so far (since last reset)
	dieAfter int  // -1: never
	dead     bool // a unit was dropped
	log      []crashUnit
	keepLog  bool
	nDeletes int // delete operations that reached the disk
}

func newCrashDB() *crashDB { return &crashDB{mem: newSortedMem(), dieAfter: -1} }

// clone copies the durable content into a fresh, healthy database.
func (c *crashDB) clone() *crashDB {
	n := newCrashDB()
	it := c.mem.Iterator(nil, nil)
	defer it.Close()
	for ; it.Valid(); it.Next() {
		n.mem.Set(append([]byte{}, it.Key()...), append([]byte{}, it.Value()...))
	}
	return n
}

// applyUnits writes logged units (in order) into this database: the durable state of a process that died after them.
func (c *crashDB) applyUnits(us []crashUnit) {
	for _, u := range us {
		for _, o := range u.ops {
			if o.del {
				c.mem.Delete(o.k)
			} else {
				c.mem.Set(append([]byte{}, o.k...), append([]byte{}, o.v...))
			}
		}
	}
}

func (c *crashDB) armCrash(k int) { c.units, c.dieAfter, c.dead = 0, k, false }
func (c *crashDB) revive()        { c.dieAfter, c.dead = -1, false }
func (c *crashDB) startLog()      { c.units, c.log, c.keepLog = 0, nil, true }
func (c *crashDB) stopLog() []crashUnit {
	c.keepLog = false
	l := c.log
	c.log = nil
	return l
}

// admit decides whether the next unit reaches the disk.
func (c *crashDB) admit(u crashUnit) bool {
	c.mtx.Lock()
	defer c.mtx.Unlock()
	if c.dieAfter >= 0 && c.units >= c.dieAfter {
		c.dead = true
		c.units++
		return false
	}
	c.units++
	if c.keepLog {
		c.log = append(c.log, u)
	}
	return true
}

func (c *crashDB) Get(k []byte) []byte { return c.mem.Get(k) }
func (c *crashDB) Has(k []byte) bool   { return c.mem.Has(k) }
func (c *crashDB) Set(k, v []byte) {
	if c.admit(crashUnit{Sets: []string{string(k)}, ops: []crashOp{{k: append([]byte{}, k...), v: append([]byte{}, v...)}}}) {
		c.mem.Set(k, v)
	}
}
func (c *crashDB) SetSync(k, v []byte) { c.Set(k, v) }
func (c *crashDB) Delete(k []byte) {
	if c.admit(crashUnit{Deletes: []string{string(k)}, ops: []crashOp{{del: true, k: append([]byte{}, k...)}}}) {
		c.nDeletes++
		c.mem.Delete(k)
	}
}
func (c *crashDB) DeleteSync(k []byte)                      { c.Delete(k) }
func (c *crashDB) Iterator(s, e []byte) dbm.Iterator        { return c.mem.Iterator(s, e) }
func (c *crashDB) ReverseIterator(s, e []byte) dbm.Iterator { return c.mem.ReverseIterator(s, e) }
func (c *crashDB) Close()                                   {}
func (c *crashDB) Print()                                   {}
func (c *crashDB) Stats() map[string]string                 { return nil }
func (c *crashDB) NewBatch() dbm.Batch                      { return &crashBatch{db: c} }

type crashOp struct {
	del  bool
	k, v []byte
}

type crashBatch struct {
	db  *crashDB
	ops []crashOp
}

func (b *crashBatch) Set(k, v []byte) {
	b.ops = append(b.ops, crashOp{k: append([]byte{}, k...), v: append([]byte{}, v...)})
}
func (b *crashBatch) Delete(k []byte) {
	b.ops = append(b.ops, crashOp{del: true, k: append([]byte{}, k...)})
}
func (b *crashBatch) Write() {
	u := crashUnit{ops: b.ops}
	for _, o := range b.ops {
		if o.del {
			u.Deletes = append(u.Deletes, string(o.k))
		} else {
			u.Sets = append(u.Sets, string(o.k))
		}
	}
	if b.db.admit(u) {
		for _, o := range b.ops {
			if o.del {
				b.db.nDeletes++
				b.db.mem.Delete(o.k)
			} else {
				b.db.mem.Set(o.k, o.v)
			}
		}
	}
	b.ops = nil
}
func (b *crashBatch) WriteSync() { b.Write() }
func (b *crashBatch) Close()     { b.ops = nil }

// dumpDB lists all raw keys (for debugging output)
func (c *crashDB) keys() []string {
	var ks []string
	it := c.mem.Iterator(nil, nil)
	defer it.Close()
	for ; it.Valid(); it.Next() {
		ks = append(ks, string(it.Key()))
	}
	sort.Strings(ks)
	return ks
}
