package props

// C14 — Store queries return committed data with proofs that verify against the app hash.
// A BaseApp with a tiny kv module (JSON transactions writing to named stores) is driven through
// BeginBlock/DeliverTx/EndBlock/Commit; /store/<s>/key queries are issued between blocks and
// between the transactions of a block and compared with a snapshot-per-height model; proofs are
// verified with the real proof runtime against the app hash of every height.

import (
	"bytes"
	"encoding/json"
	"fmt"
	amino "github.com/tendermint/go-amino"

	abci "github.com/tendermint/tendermint/abci/types"
	"github.com/tendermint/tendermint/crypto/merkle"
	"github.com/tendermint/tendermint/libs/log"
	"pgregory.net/rapid"

	"github.com/pokt-network/posmint/baseapp"
	"github.com/pokt-network/posmint/store/rootmulti"
	stypes "github.com/pokt-network/posmint/store/types"
	sdk "github.com/pokt-network/posmint/types"
)

// ---------------------------------------------------------------------------------------------
// kv test application

type kvMsg struct {
	Writes []c12Write `json:"writes"`
	Fail   bool       `json:"fail,omitempty"`
}

func (m kvMsg) Route() string            { return "kv" }
func (m kvMsg) Type() string             { return "kv" }
func (m kvMsg) ValidateBasic() sdk.Error { return nil }
func (m kvMsg) GetSignBytes() []byte     { return nil }
func (m kvMsg) GetSigner() sdk.Address   { return nil }
func (m kvMsg) GetFee() sdk.Int          { return sdk.ZeroInt() }

type kvTx struct{ Msg kvMsg }

func (t kvTx) GetMsg() sdk.Msg          { return t.Msg }
func (t kvTx) ValidateBasic() sdk.Error { return nil }

func kvTxDecoder(bz []byte) (sdk.Tx, sdk.Error) {
	var m kvMsg
	if err := json.Unmarshal(bz, &m); err != nil {
		return nil, sdk.ErrTxDecode("bad kv tx")
	}
	return kvTx{m}, nil
}

type kvApp struct {
	*baseapp.BaseApp
	main *sdk.KVStoreKey
	keys []*sdk.KVStoreKey
}

func newKVApp(db *crashDB, nstores int, keepRecent, keepEvery int64) (*kvApp, error) {
	a := &kvApp{main: sdk.NewKVStoreKey(baseapp.MainStoreKey)}
	a.BaseApp = baseapp.NewBaseApp("kvapp", log.NewNopLogger(), db, kvTxDecoder, baseapp.SetPruning(stypes.NewPruningOptions(keepRecent, keepEvery)))
	a.MountStores(a.main)
	for i := 0; i < nstores; i++ {
		k := sdk.NewKVStoreKey(fmt.Sprintf("store%d", i))
		a.keys = append(a.keys, k)
		a.MountStores(k)
	}
	a.Router().AddRoute("kv", func(ctx sdk.Ctx, msg sdk.Msg) sdk.Result {
		m := msg.(kvMsg)
		if m.Fail {
			return sdk.ErrInternal("kv: asked to fail").Result()
		}
		for _, w := range m.Writes {
			st := ctx.KVStore(a.keys[w.St])
			if w.Del {
				st.Delete(unhex(w.K))
			} else {
				st.Set(unhex(w.K), unhex(w.V))
			}
		}
		return sdk.Result{}
	})
	if err := a.LoadLatestVersion(a.main); err != nil {
		return nil, err
	}
	return a, nil
}

// kvCdc decodes the pair list a /subspace query returns (amino, no registered types involved)
var kvCdc = amino.NewCodec()

// ---------------------------------------------------------------------------------------------
// program

type c14Query struct {
	St    int    `json:"st"` // -1: unknown store
	K     string `json:"k"`
	H     int64  `json:"h"` // requested height (0 = default)
	Prove bool   `json:"prove,omitempty"`
	Path  string `json:"path,omitempty"` // "" = key; otherwise an unknown sub-path
}

type c14Step struct {
	Kind   string     `json:"kind"` // tx query commit
	Writes []c12Write `json:"w,omitempty"`
	Q      *c14Query  `json:"q,omitempty"`
}

type c14Prog struct {
	NStores    int       `json:"nstores"`
	KeepRecent int64     `json:"keep_recent"`
	KeepEvery  int64     `json:"keep_every"`
	Steps      []c14Step `json:"steps"`
}

func genC14(t *rapid.T, tier string) interface{} {
	p := &c14Prog{}
	p.NStores = rapid.IntRange(1, 3).Draw(t, "nstores")
	switch rapid.IntRange(0, 3).Draw(t, "strategy") {
	case 0:
		p.KeepRecent, p.KeepEvery = 0, 1
	case 1:
		p.KeepRecent, p.KeepEvery = 100, 10000
	default:
		p.KeepRecent = rapid.SampledFrom([]int64{0, 1, 2, 5}).Draw(t, "keeprecent")
		p.KeepEvery = rapid.SampledFrom([]int64{0, 1, 2, 3}).Draw(t, "keepevery")
	}
	var used []string
	commits := 0
	minSteps := rapid.SampledFrom([]int{3, 12, 24}).Draw(t, "minsteps")
	p.Steps = rapid.SliceOfN(rapid.Custom(func(t *rapid.T) c14Step {
		var s c14Step
		s.Kind = rapid.SampledFrom([]string{"tx", "tx", "tx", "query", "query", "query", "query", "query", "commit", "commit", "commit", "reopen"}).Draw(t, "kind")
		switch s.Kind {
		case "tx":
			n := rapid.IntRange(1, 4).Draw(t, "nw")
			for i := 0; i < n; i++ {
				w := c12Write{St: rapid.IntRange(0, p.NStores-1).Draw(t, "st")}
				if len(used) > 0 && rapid.Bool().Draw(t, "reuse") {
					w.K = rapid.SampledFrom(used).Draw(t, "usedkey")
				} else {
					w.K = genKeyHex(t, "k", 1, 3)
					used = append(used, w.K)
				}
				if rapid.IntRange(0, 3).Draw(t, "del") == 0 {
					w.Del = true
				} else {
					w.V = genValHex(t, "v", true)
				}
				s.Writes = append(s.Writes, w)
			}
		case "commit":
			commits++
		case "query":
			q := &c14Query{St: rapid.IntRange(0, p.NStores-1).Draw(t, "qst")}
			if len(used) > 0 && rapid.IntRange(0, 4).Draw(t, "qused") > 0 {
				k := unhex(rapid.SampledFrom(used).Draw(t, "qkey"))
				switch rapid.IntRange(0, 5).Draw(t, "qmut") {
				case 0, 1:
				case 2:
					k = append(k, 0x00)
				case 3:
					if len(k) > 1 {
						k = k[:len(k)-1]
					}
				case 4:
					k[len(k)-1]++
				case 5:
					k[len(k)-1]--
				}
				q.K = hx(k)
			} else {
				q.K = genKeyHex(t, "qk", 1, 3)
			}
			q.H = int64(rapid.IntRange(0, commits+2).Draw(t, "qh"))
			q.Prove = rapid.Bool().Draw(t, "prove")
			switch rapid.IntRange(0, 19).Draw(t, "qodd") {
			case 0:
				q.St = -1
			case 1:
				q.Path = "nosuchpath"
			case 2, 3, 4:
				// all pairs under a prefix: a used key, a used key cut short, or one byte
				q.Path, q.Prove = "subspace", false
				if k := unhex(q.K); len(k) > 1 && rapid.Bool().Draw(t, "qcut") {
					q.K = hx(k[:1])
				}
			}
			s.Q = q
		}
		return s
	}), minSteps, 60).Draw(t, "steps")
	return p
}

// ---------------------------------------------------------------------------------------------
// executor

func iavlCpIncr(bz []byte) []byte {
	ret := append([]byte{}, bz...)
	for i := len(bz) - 1; i >= 0; i-- {
		if ret[i] < 0xFF {
			ret[i]++
			return ret
		}
		ret[i] = 0
		if i == 0 {
			return append(ret, 0)
		}
	}
	return []byte{0}
}

func isAllFF(b []byte) bool {
	for _, x := range b {
		if x != 0xFF {
			return false
		}
	}
	return len(b) > 0
}

func execC14(prog interface{}, c *Case) *Violation {
	p := prog.(*c14Prog)
	db := newCrashDB()
	app, err := newKVApp(db, p.NStores, p.KeepRecent, p.KeepEvery)
	if err != nil {
		return violf("C14/harness", "cannot build the kv app: %v", err)
	}
	app.InitChain(abci.RequestInitChain{ChainId: "c14"})
	model := make([]flatKV, p.NStores)
	for i := range model {
		model[i] = flatKV{}
	}
	hist := &c12History{snaps: map[int64][]flatKV{}, hashes: map[int64][]byte{}, retained: map[int64]bool{}}
	pp := &c12Prog{KeepRecent: p.KeepRecent, KeepEvery: p.KeepEvery}
	latest := int64(0)
	blockOpen := false
	prt := rootmulti.DefaultProofRuntime()
	begin := func() {
		if !blockOpen {
			app.BeginBlock(abci.RequestBeginBlock{Header: abci.Header{Height: latest + 1, ChainID: "c14"}})
			blockOpen = true
		}
	}
	absBetween, foreignChecked, midBlock := false, 0, false
	reopened := false

	for si := range p.Steps {
		s := &p.Steps[si]
		switch s.Kind {
		case "tx":
			begin()
			bz, _ := json.Marshal(kvMsg{Writes: s.Writes})
			if r := app.DeliverTx(abci.RequestDeliverTx{Tx: bz}); r.Code != 0 {
				return violf("C14/harness", "kv tx failed: %s", r.Log)
			}
			for _, w := range s.Writes {
				if w.Del {
					delete(model[w.St], string(unhex(w.K)))
				} else {
					model[w.St][string(unhex(w.K))] = unhex(w.V)
				}
			}
		case "reopen":
			// the process stops (uncommitted writes of an open block are lost) and the application is rebuilt from
			// its database: old versions are then read from disk
			if latest < 1 {
				continue
			}
			app, err = newKVApp(db, p.NStores, p.KeepRecent, p.KeepEvery)
			if err != nil {
				return violf("C14/reopen-failed", "step %d: the application cannot be reopened at height %d: %v", si, latest, err)
			}
			model = cloneModel(hist.snaps[latest])
			blockOpen = false
			reopened = true
			if info := app.Info(abci.RequestInfo{}); info.LastBlockHeight != latest || !bytes.Equal(info.LastBlockAppHash, hist.hashes[latest]) {
				return violf("C14/info-after-reopen", "step %d: reopened application reports (%d,%X), committed (%d,%X)", si, info.LastBlockHeight, info.LastBlockAppHash, latest, hist.hashes[latest])
			}
		case "commit":
			begin()
			app.EndBlock(abci.RequestEndBlock{Height: latest + 1})
			res := app.Commit()
			latest++
			blockOpen = false
			hist.snaps[latest] = cloneModel(model)
			hist.hashes[latest] = res.Data
			hist.commit(latest, pp)
			if info := app.Info(abci.RequestInfo{}); info.LastBlockHeight != latest || !bytes.Equal(info.LastBlockAppHash, res.Data) {
				return violf("C14/info-after-commit", "step %d: Info reports (%d,%X) after Commit returned (%d,%X)", si, info.LastBlockHeight, info.LastBlockAppHash, latest, res.Data)
			}
		case "query":
			q := s.Q
			if q == nil {
				continue
			}
			if blockOpen {
				midBlock = true
			}
			storeName := fmt.Sprintf("store%d", q.St)
			if q.St < 0 || q.St >= p.NStores {
				storeName = "nosuchstore"
			}
			sub := "key"
			if q.Path != "" {
				sub = q.Path
			}
			key := unhex(q.K)
			req := abci.RequestQuery{Path: "/store/" + storeName + "/" + sub, Data: key, Height: q.H, Prove: q.Prove}
			var resp abci.ResponseQuery
			res := catch(func() { resp = app.Query(req) })
			desc := fmt.Sprintf("step %d query %s key=%x height=%d prove=%v (latest=%d, keepRecent=%d keepEvery=%d)", si, req.Path, key, q.H, q.Prove, latest, p.KeepRecent, p.KeepEvery)
			// known findings rooted in tendermint/iavl v0.12.4 getRangeProof, which uses cpIncr(k) as "the key after k":
			// (a) absence proofs: the proof leaves it selects are not the true neighbours of the absent key
			// (b) a queried key made only of 0xFF bytes wraps to 00..00 and panics
			const ffSig = "C14/proof-for-all-ff-key/iavl-cpincr-wraps"
			const absSig = "C14/absence-proof-unverifiable/iavl-range-proof-leaves"
			absenceDefect := func(h int64) bool {
				if q.St < 0 || q.St >= p.NStores || hist.snaps[h] == nil {
					return false
				}
				ks := hist.snaps[h][q.St].sortedKeys()
				if len(ks) == 0 {
					return false
				}
				left, hasSucc := "", false
				haveLeft := false
				for i := range ks {
					if ks[i] <= string(key) {
						left, haveLeft = ks[i], true
					} else {
						hasSucc = true
					}
				}
				if !haveLeft {
					left = ks[0]
				}
				if isAllFF([]byte(left)) {
					return true
				}
				afterLeft := iavlCpIncr([]byte(left))
				if bytes.Compare(afterLeft, iavlCpIncr(key)) >= 0 {
					// the proof stops at the left leaf: inadequate when that leaf is the predecessor and a successor exists
					return haveLeft && hasSucc
				}
				// otherwise the second leaf is the first key >= cpIncr(left), which must be left's real successor
				imm, second := "", ""
				for i := range ks {
					if imm == "" && ks[i] > left {
						imm = ks[i]
					}
					if second == "" && bytes.Compare([]byte(ks[i]), afterLeft) >= 0 {
						second = ks[i]
					}
				}
				return imm != "" && imm != second
			}
			if res.panicked {
				hh := q.H
				if hh == 0 {
					hh = latest
				}
				_ = hh
				if q.Prove && isAllFF(key) {
					if c.Known(ffSig) {
						continue
					}
					return violf(ffSig, "%s panicked: %v", desc, res.pv)
				}
				return violf("C14/query-panic", "%s panicked: %v", desc, res.pv)
			}
			if storeName != "nosuchstore" && q.Path == "subspace" {
				h := q.H
				if h == 0 {
					h = latest
				}
				var got []stypes.KVPair
				if len(resp.Value) > 0 {
					if err := kvCdc.UnmarshalBinaryLengthPrefixed(resp.Value, &got); err != nil {
						return violf("C14/subspace-undecodable", "%s: value does not decode as a list of pairs: %v", desc, err)
					}
				}
				// known finding (pinned by the shipped TestIAVLStoreQuery): /subspace ignores the height and lists the
				// working tree, which in posmint also holds the uncommitted writes of the block in progress
				const subSig = "C14/subspace-reads-working-tree"
				sameAs := func(m flatKV) bool {
					var want []string
					for _, k := range m.sortedKeys() {
						if bytes.HasPrefix([]byte(k), key) {
							want = append(want, k)
						}
					}
					if len(got) != len(want) {
						return false
					}
					for i := range want {
						if string(got[i].Key) != want[i] || !bytes.Equal(got[i].Value, m[want[i]]) {
							return false
						}
					}
					return true
				}
				workingTree := sameAs(model[q.St])
				if !hist.retained[h] {
					if len(got) > 0 {
						if workingTree && c.Known(subSig) {
							continue
						}
						sig := "C14/data-for-unreadable-height"
						if workingTree {
							sig = subSig
						}
						return violf(sig, "%s: height %d is %s but the subspace query returned %d pairs", desc, h,
							map[bool]string{true: "in the future / not committed", false: "pruned"}[h > latest || h == 0], len(got))
					}
					c.Label("subspace-unreadable-height")
					continue
				}
				if resp.Code != 0 {
					return violf("C14/query-failed", "%s failed for a retained height: code=%d log=%s", desc, resp.Code, resp.Log)
				}
				var want []string
				for _, k := range hist.snaps[h][q.St].sortedKeys() {
					if bytes.HasPrefix([]byte(k), key) {
						want = append(want, k)
					}
				}
				ok := sameAs(hist.snaps[h][q.St])
				if !ok && workingTree {
					if c.Known(subSig) {
						continue
					}
					return violf(subSig, "%s (block open=%v): the subspace query lists the working tree instead of what was committed at height %d", desc, blockOpen, h)
				}
				if !ok {
					var gs []string
					for _, kv := range got {
						gs = append(gs, fmt.Sprintf("%x=%x", kv.Key, kv.Value))
					}
					var ws []string
					for _, k := range want {
						ws = append(ws, fmt.Sprintf("%x=%x", k, hist.snaps[h][q.St][k]))
					}
					return violf("C14/subspace-wrong-content", "%s (block open=%v): returned %v, committed at height %d under that prefix: %v", desc, blockOpen, gs, h, ws)
				}
				c.Label("subspace-query")
				if blockOpen {
					c.Label("subspace-query-with-uncommitted-writes")
				}
				continue
			}
			if storeName == "nosuchstore" || q.Path != "" {
				if resp.Code == 0 || resp.Value != nil {
					return violf("C14/bad-path-accepted", "%s returned code 0 / a value", desc)
				}
				continue
			}
			h := q.H
			if h == 0 {
				h = latest
			}
			if h <= 1 && q.Prove {
				// documented rule: no proof at height <= 1
				if resp.Code == 0 || resp.Value != nil || resp.Proof != nil {
					return violf("C14/proof-at-height-le-1", "%s must be refused, got code=%d value=%x", desc, resp.Code, resp.Value)
				}
				continue
			}
			if !hist.retained[h] {
				// pruned, future or nothing committed yet: no value and no proof, never data from another height
				if resp.Value != nil || (resp.Proof != nil && len(resp.Proof.Ops) > 0) {
					return violf("C14/data-for-unreadable-height", "%s: height %d is %s but the query returned value=%x proof=%v", desc, h,
						map[bool]string{true: "in the future / not committed", false: "pruned"}[h > latest || h == 0], resp.Value, resp.Proof != nil)
				}
				c.Label("query-unreadable-height")
				continue
			}
			want, present := hist.snaps[h][q.St][string(key)]
			if resp.Code != 0 {
				return violf("C14/query-failed", "%s failed for a retained height: code=%d log=%s", desc, resp.Code, resp.Log)
			}
			if (resp.Value == nil) != !present || !bytes.Equal(resp.Value, want) {
				return violf("C14/wrong-value", "%s returned %x, committed at %d: %x (present %v); working state %x", desc, resp.Value, h, want, present, model[q.St][string(key)])
			}
			if resp.Height != h {
				return violf("C14/wrong-height", "%s answered for height %d", desc, resp.Height)
			}
			if !q.Prove {
				c.Label("query-value")
				continue
			}
			if resp.Proof == nil || len(resp.Proof.Ops) == 0 {
				return violf("C14/missing-proof", "%s returned no proof", desc)
			}
			kp := merkle.KeyPath{}
			kp = kp.AppendKey([]byte(storeName), merkle.KeyEncodingURL)
			kp = kp.AppendKey(key, merkle.KeyEncodingHex)
			verify := func(root []byte, k merkle.KeyPath, val []byte) error {
				if present {
					return prt.VerifyValue(resp.Proof, root, k.String(), val)
				}
				return prt.VerifyAbsence(resp.Proof, root, k.String())
			}
			if err := verify(hist.hashes[h], kp, want); err != nil {
				if !present && absenceDefect(h) {
					if c.Known(absSig) {
						continue
					}
					return violf(absSig, "%s: absence proof does not verify against the app hash of %d: %v (stored keys %s)", desc, h, err, hexKeys(hist.snaps[h][q.St].sortedKeys()))
				}
				return violf("C14/proof-does-not-verify", "%s: proof does not verify against the app hash of height %d: %v", desc, h, err)
			}
			if present {
				c.Label("existence-proof")
			} else {
				c.Label("absence-proof")
				ks := hist.snaps[h][q.St].sortedKeys()
				if len(ks) > 0 && ks[0] < string(key) && ks[len(ks)-1] > string(key) {
					absBetween = true
				}
			}
			// must not verify against any other height's (different) hash
			for oh, hash := range hist.hashes {
				if oh == h || bytes.Equal(hash, hist.hashes[h]) {
					continue
				}
				if err := verify(hash, kp, want); err == nil {
					return violf("C14/proof-verifies-against-foreign-hash", "%s: proof for height %d also verifies against the app hash of height %d", desc, h, oh)
				}
				foreignChecked++
			}
			// metamorphic: another value / another key must not verify
			if present {
				bad := append([]byte{}, want...)
				if len(bad) == 0 {
					bad = []byte{0x01}
				} else {
					bad[0] ^= 0x01
				}
				if err := prt.VerifyValue(resp.Proof, hist.hashes[h], kp.String(), bad); err == nil {
					return violf("C14/proof-accepts-wrong-value", "%s: proof verifies for a different value", desc)
				}
			}
			kp2 := merkle.KeyPath{}
			kp2 = kp2.AppendKey([]byte(storeName), merkle.KeyEncodingURL)
			kp2 = kp2.AppendKey(append(append([]byte{}, key...), 0x7f), merkle.KeyEncodingHex)
			if err := verify(hist.hashes[h], kp2, want); err == nil && present {
				return violf("C14/proof-accepts-wrong-key", "%s: proof verifies for a different key", desc)
			}
		}
	}
	if midBlock {
		c.Label("query-with-uncommitted-writes")
	}
	if reopened {
		c.Label("reopened")
	}
	if absBetween {
		c.Label("absence-between-present-keys")
	}
	if absBetween || foreignChecked >= 2 {
		c.NonTrivial()
	}
	return nil
}

func init() {
	register(&PropDef{
		ID: "C14",
		Rule: "each case drives a BaseApp with a kv module over 1-3 IAVL stores and a pruning policy through generated steps tx/commit/query; queries /store/<s>/key use keys that are present, " +
			"deleted earlier, never written, a used key +-1 in the last byte, a prefix or an extension of a used key, heights in [0, commits+2] (default, retained, pruned, future), with and without proof, " +
			"between blocks and between the transactions of a block, plus unknown stores/paths. Oracle: snapshot per height; proofs verified with rootmulti.DefaultProofRuntime against the app hash of " +
			"the height, against every other height's hash (must fail) and with a flipped value / altered key (must fail). Non-trivial = an absence proof for a key between two present keys, or proofs " +
			"checked against >=2 foreign hashes; distinctness = hash of the program",
		Gen:  genC14,
		New:  func() interface{} { return &c14Prog{} },
		Exec: execC14,
		Assum: []string{"tendermint crypto/merkle proof runtime with the IAVL and multistore proof ops is the trusted verifier", "/subspace queries carry no proof by design and are not generated",
			"retention as in C12"},
	})
}
