package props

// C18 — Integer, decimal and coin arithmetic is exact and overflow-safe.
// Oracle: independent computation with math/big on the raw representations.

import (
	"fmt"
	"math/big"
	"sort"
	"strings"

	sdk "github.com/pokt-network/posmint/types"
	"pgregory.net/rapid"
)

type c18Coin struct {
	D string `json:"d"`
	A string `json:"a"` // raw amount (Int: integer, Dec: integer * 10^-18)
}

type c18Eval struct {
	Kind string    `json:"k"` // int uint dec coins deccoins power
	Op   string    `json:"op"`
	A    string    `json:"a,omitempty"`
	B    string    `json:"b,omitempty"`
	I64  int64     `json:"i,omitempty"`
	CA   []c18Coin `json:"ca,omitempty"`
	CB   []c18Coin `json:"cb,omitempty"`
	Den  string    `json:"den,omitempty"`
	// Alias: the second operand is the very same object as the first (x.Add(x), A.Sub(A) ...)
	Alias bool `json:"alias,omitempty"`
}

type c18Prog struct {
	Evals []c18Eval `json:"evals"`
}

var (
	bigOne   = big.NewInt(1)
	bigTen18 = new(big.Int).Exp(big.NewInt(10), big.NewInt(18), nil)
	bigTen36 = new(big.Int).Exp(big.NewInt(10), big.NewInt(36), nil)
	bigTen6  = big.NewInt(1000000)
)

const (
	intBits  = 255
	uintBits = 256
	decBits  = 255 + 60
)

// ---------------------------------------------------------------------------------------------
// generators

var c18KBits = []int{31, 32, 62, 63, 64, 65, 127, 128, 253, 254, 255, 256, 257, 313, 314, 315, 316}

func genBig(t *rapid.T, label string, maxBits int, signed bool) *big.Int {
	var v *big.Int
	switch rapid.IntRange(0, 6).Draw(t, label+".shape") {
	case 0:
		v = big.NewInt(int64(rapid.IntRange(-12, 12).Draw(t, label+".small")))
	case 1: // +-10^k +- d
		k := rapid.IntRange(0, 96).Draw(t, label+".pow10")
		v = new(big.Int).Exp(big.NewInt(10), big.NewInt(int64(k)), nil)
		v.Add(v, big.NewInt(int64(rapid.IntRange(-2, 2).Draw(t, label+".d"))))
	case 2: // 2^k +- d
		k := rapid.SampledFrom(c18KBits).Draw(t, label+".pow2")
		v = new(big.Int).Lsh(bigOne, uint(k))
		v.Add(v, big.NewInt(int64(rapid.IntRange(-2, 2).Draw(t, label+".d"))))
	case 3: // multiple of 10^18 plus remainder near a tie
		q := genRandBits(t, label+".q", rapid.IntRange(0, maxBits-59).Draw(t, label+".qbits"))
		r := rapid.SampledFrom([]int64{0, 1, 499999999999999999, 500000000000000000, 500000000000000001, 999999999999999999}).Draw(t, label+".rem")
		v = new(big.Int).Mul(q, bigTen18)
		v.Add(v, big.NewInt(r))
	case 4: // int64 range
		v = big.NewInt(rapid.Int64().Draw(t, label+".i64"))
	default:
		v = genRandBits(t, label+".r", rapid.IntRange(0, maxBits+3).Draw(t, label+".bits"))
	}
	if signed {
		if rapid.Bool().Draw(t, label+".neg") {
			v.Neg(v)
		}
	} else {
		v.Abs(v)
	}
	return v
}

func genRandBits(t *rapid.T, label string, bits int) *big.Int {
	if bits <= 0 {
		return new(big.Int)
	}
	n := (bits + 7) / 8
	bz := rapid.SliceOfN(rapid.Byte(), n, n).Draw(t, label)
	v := new(big.Int).SetBytes(bz)
	v.SetBit(v, bits-1, 1) // exactly `bits` long
	for i := v.BitLen() - 1; i >= bits; i-- {
		v.SetBit(v, i, 0)
	}
	return v
}

// operand within the type's range (valid operand); occasionally the exact bound.
func genInRange(t *rapid.T, label string, bits int, signed bool) *big.Int {
	v := genBig(t, label, bits, signed)
	if v.BitLen() > bits {
		// fold into range: keep the low bits, which keeps near-bound shapes near the bound
		m := new(big.Int).Lsh(bigOne, uint(bits))
		neg := v.Sign() < 0
		v.Abs(v)
		v.Mod(v, m)
		if rapid.IntRange(0, 3).Draw(t, label+".bound") == 0 {
			v.Sub(m, big.NewInt(int64(rapid.IntRange(1, 3).Draw(t, label+".bd"))))
		}
		if neg {
			v.Neg(v)
		}
	}
	return v
}

var c18Denoms = []string{"aaa", "aab", "abc", "pokt", "upokt", "upoku", "zzz", "a1234567890bcdef"}

func genCoins(t *rapid.T, label string, dec bool) []c18Coin {
	n := rapid.IntRange(0, 4).Draw(t, label+".n")
	idx := map[int]bool{}
	for i := 0; i < n; i++ {
		idx[rapid.IntRange(0, len(c18Denoms)-1).Draw(t, label+".den")] = true
	}
	var ks []int
	for k := range idx {
		ks = append(ks, k)
	}
	sort.Ints(ks)
	var out []c18Coin
	for _, k := range ks {
		var a *big.Int
		switch rapid.IntRange(0, 3).Draw(t, label+".ashape") {
		case 0:
			a = big.NewInt(int64(rapid.IntRange(1, 5).Draw(t, label+".as")))
		case 1:
			a = big.NewInt(rapid.Int64Range(1, 1<<62).Draw(t, label+".a64"))
		default:
			bits := intBits
			if dec {
				bits = decBits
			}
			a = genInRange(t, label+".a", bits, false)
			if a.Sign() == 0 {
				a = big.NewInt(1)
			}
		}
		out = append(out, c18Coin{D: c18Denoms[k], A: a.String()})
	}
	return out
}

var (
	c18IntOps  = []string{"Add", "Sub", "Mul", "Quo", "Mod", "Neg", "AddRaw", "SubRaw", "MulRaw", "QuoRaw", "ModRaw", "Min", "Max", "Cmp", "Int64", "ToDec", "Str", "Sign"}
	c18UintOps = []string{"Add", "Sub", "Mul", "Quo", "AddUint64", "SubUint64", "MulUint64", "QuoUint64", "Min", "Max", "Cmp", "Uint64", "Str"}
	c18DecOps  = []string{"Add", "Sub", "Mul", "MulTruncate", "MulInt", "MulInt64", "Quo", "QuoTruncate", "QuoRoundUp", "QuoInt", "QuoInt64",
		"RoundInt", "RoundInt64", "TruncateInt", "TruncateInt64", "TruncateDec", "Ceil", "IsInteger", "Neg", "Abs", "Cmp", "Str", "FromInt"}
	c18CoinsOps    = []string{"Add", "Sub", "SafeSub", "AddSub", "IsAllGT", "IsAllGTE", "IsAllLT", "IsAllLTE", "IsAnyGT", "IsAnyGTE", "IsEqual", "AmountOf", "DenomsSubsetOf", "NewCoins", "Str", "Preds"}
	c18DecCoinsOps = []string{"Add", "Sub", "SafeSub", "AddSub", "Truncate", "MulDec", "MulDecTruncate", "QuoDec", "QuoDecTruncate", "Intersect", "AmountOf", "IsEqual"}
)

func genC18Eval(t *rapid.T) c18Eval {
	var e c18Eval
	switch rapid.IntRange(0, 9).Draw(t, "kind") {
	case 0, 1:
		e.Kind = "int"
		e.Op = rapid.SampledFrom(c18IntOps).Draw(t, "op")
		e.A = genInRange(t, "a", intBits, true).String()
		e.B = genInRange(t, "b", intBits, true).String()
		e.I64 = genI64(t)
		if rapid.IntRange(0, 9).Draw(t, "alias") == 0 {
			e.Alias, e.B = true, e.A
		}
	case 2:
		e.Kind = "uint"
		e.Op = rapid.SampledFrom(c18UintOps).Draw(t, "op")
		e.A = genInRange(t, "a", uintBits, false).String()
		e.B = genInRange(t, "b", uintBits, false).String()
		e.I64 = genI64(t)
		if rapid.IntRange(0, 9).Draw(t, "alias") == 0 {
			e.Alias, e.B = true, e.A
		}
	case 3, 4, 5, 6:
		e.Kind = "dec"
		e.Op = rapid.SampledFrom(c18DecOps).Draw(t, "op")
		genDecOperands(t, &e)
		e.I64 = genI64(t)
		if rapid.IntRange(0, 9).Draw(t, "alias") == 0 {
			e.Alias, e.B = true, e.A
		}
	case 7, 8:
		e.Kind = "coins"
		e.Op = rapid.SampledFrom(c18CoinsOps).Draw(t, "op")
		e.CA = genCoins(t, "ca", false)
		e.CB = genCoinsRelated(t, "cb", e.CA, false)
		e.Den = rapid.SampledFrom(c18Denoms).Draw(t, "den")
		if rapid.IntRange(0, 9).Draw(t, "alias") == 0 {
			e.Alias, e.CB = true, e.CA
		}
	default:
		if rapid.IntRange(0, 2).Draw(t, "coin1") == 0 {
			// a single Coin / DecCoin pair (Den carries "dec" for DecCoin)
			e.Kind = "coin1"
			e.Op = rapid.SampledFrom([]string{"Add", "Sub", "IsGTE", "IsLT", "IsEqual", "Preds"}).Draw(t, "op")
			dec := rapid.Bool().Draw(t, "c1dec")
			bits := intBits
			if dec {
				bits, e.Den = decBits, "dec"
			}
			da := rapid.SampledFrom(c18Denoms).Draw(t, "c1da")
			db := da
			if rapid.IntRange(0, 3).Draw(t, "c1other") == 0 {
				db = rapid.SampledFrom(c18Denoms).Draw(t, "c1db")
			}
			a := genInRange(t, "c1a", bits, false)
			b := genInRange(t, "c1b", bits, false)
			if rapid.IntRange(0, 3).Draw(t, "c1near") == 0 {
				b = new(big.Int).Add(a, big.NewInt(int64(rapid.IntRange(-1, 1).Draw(t, "c1d"))))
				if b.Sign() < 0 || b.BitLen() > bits {
					b = new(big.Int).Set(a)
				}
			}
			e.CA, e.CB = []c18Coin{{D: da, A: a.String()}}, []c18Coin{{D: db, A: b.String()}}
			return e
		}
		if rapid.Bool().Draw(t, "pw") {
			e.Kind = "power"
			e.Op = rapid.SampledFrom([]string{"ToPower", "FromPower"}).Draw(t, "op")
			e.A = genInRange(t, "a", intBits, true).String()
			e.I64 = genI64(t)
		} else {
			e.Kind = "deccoins"
			e.Op = rapid.SampledFrom(c18DecCoinsOps).Draw(t, "op")
			e.CA = genCoins(t, "ca", true)
			e.CB = genCoinsRelated(t, "cb", e.CA, true)
			e.A = genInRange(t, "a", 200, true).String()
			e.Den = rapid.SampledFrom(c18Denoms).Draw(t, "den")
		}
	}
	return e
}

func genI64(t *rapid.T) int64 {
	switch rapid.IntRange(0, 3).Draw(t, "i64shape") {
	case 0:
		return int64(rapid.IntRange(-3, 3).Draw(t, "i64s"))
	case 1:
		return rapid.SampledFrom([]int64{1<<63 - 1, -1 << 63, 1<<63 - 2, -1<<63 + 1, 1000000, 1 << 32}).Draw(t, "i64e")
	default:
		return rapid.Int64().Draw(t, "i64")
	}
}

// second coin set: independent, or derived from the first (same denominations, amounts equal /
// one more / one less) so that comparisons and subtraction meet their boundaries.
func genCoinsRelated(t *rapid.T, label string, a []c18Coin, dec bool) []c18Coin {
	if len(a) == 0 || rapid.IntRange(0, 2).Draw(t, label+".indep") == 0 {
		return genCoins(t, label, dec)
	}
	var out []c18Coin
	for i, c := range a {
		mode := rapid.IntRange(0, 4).Draw(t, fmt.Sprintf("%s.m%d", label, i))
		amt, _ := new(big.Int).SetString(c.A, 10)
		switch mode {
		case 0:
			continue // drop the denomination
		case 1:
		case 2:
			amt = new(big.Int).Add(amt, bigOne)
		case 3:
			amt = new(big.Int).Sub(amt, bigOne)
		case 4:
			amt = genInRange(t, label+".ra", 100, false)
		}
		if amt.Sign() <= 0 {
			amt = big.NewInt(1)
		}
		out = append(out, c18Coin{D: c.D, A: amt.String()})
	}
	return out
}

// Dec operands, with constructions that land on / next to rounding ties.
func genDecOperands(t *rapid.T, e *c18Eval) {
	a := genInRange(t, "a", decBits, true)
	b := genInRange(t, "b", decBits, true)
	switch e.Op {
	case "Mul", "MulTruncate":
		switch rapid.IntRange(0, 3).Draw(t, "mulshape") {
		case 0: // b = +-10^-18: product remainder is a's low 18 digits (a built with tie remainders)
			b = big.NewInt(int64(rapid.SampledFrom([]int{1, -1, 2, 5, 10}).Draw(t, "tiny")))
		case 1: // (2q+1)*10^j  x  5*10^(17-j): exact tie
			j := rapid.IntRange(0, 17).Draw(t, "j")
			q := genRandBits(t, "q", rapid.IntRange(0, 120).Draw(t, "qb"))
			a = new(big.Int).Mul(q, big.NewInt(2))
			a.Add(a, big.NewInt(int64(rapid.IntRange(0, 2).Draw(t, "odd"))))
			a.Mul(a, new(big.Int).Exp(big.NewInt(10), big.NewInt(int64(j)), nil))
			b = new(big.Int).Mul(big.NewInt(5), new(big.Int).Exp(big.NewInt(10), big.NewInt(int64(17-j)), nil))
			if rapid.Bool().Draw(t, "neg") {
				a.Neg(a)
			}
		}
	case "Quo", "QuoTruncate", "QuoRoundUp":
		switch rapid.IntRange(0, 3).Draw(t, "quoshape") {
		case 0, 1: // a = m*(2q+1) + d, b = 2m*10^18 : a/b = q + 1/2 + d/(2m)
			m := genRandBits(t, "m", rapid.IntRange(1, 130).Draw(t, "mb"))
			q := genRandBits(t, "q", rapid.IntRange(0, 100).Draw(t, "qb"))
			a = new(big.Int).Mul(q, big.NewInt(2))
			a.Add(a, bigOne)
			a.Mul(a, m)
			a.Add(a, big.NewInt(int64(rapid.IntRange(-1, 1).Draw(t, "d"))))
			b = new(big.Int).Mul(m, big.NewInt(2))
			if rapid.Bool().Draw(t, "scaleb") {
				b.Mul(b, bigTen18)
			}
			if rapid.Bool().Draw(t, "nega") {
				a.Neg(a)
			}
			if rapid.Bool().Draw(t, "negb") {
				b.Neg(b)
			}
		}
	}
	e.A, e.B = a.String(), b.String()
}

func genC18(t *rapid.T, tier string) interface{} {
	return &c18Prog{Evals: rapid.SliceOfN(rapid.Custom(genC18Eval), 1, 24).Draw(t, "evals")}
}

// ---------------------------------------------------------------------------------------------
// oracle helpers

func mustBig(s string) *big.Int {
	v, ok := new(big.Int).SetString(s, 10)
	if !ok {
		panic("harness: bad big literal " + s)
	}
	return v
}

// floor division and remainder with den != 0, rounding selected by mode.
// mode: "even" half-to-even, "trunc" toward zero, "up" toward +inf, "floor".
func divRound(num, den *big.Int, mode string) *big.Int {
	if den.Sign() == 0 {
		panic("harness: division by zero in oracle")
	}
	n, d := new(big.Int).Set(num), new(big.Int).Set(den)
	if d.Sign() < 0 {
		n.Neg(n)
		d.Neg(d)
	}
	q, r := new(big.Int).DivMod(n, d, new(big.Int)) // Euclidean: 0 <= r < d, q = floor
	if r.Sign() == 0 {
		return q
	}
	switch mode {
	case "floor":
		return q
	case "up":
		return q.Add(q, bigOne)
	case "trunc":
		if n.Sign() < 0 {
			return q.Add(q, bigOne)
		}
		return q
	case "even":
		c := new(big.Int).Lsh(r, 1).Cmp(d)
		if c > 0 || (c == 0 && q.Bit(0) == 1) {
			return q.Add(q, bigOne)
		}
		return q
	}
	panic("harness: bad mode")
}

// distance (in result units, as a rational compare) of num/den from a tie: reports whether the
// exact quotient lies within 2 units of a half-way point or is an exact integer boundary.
func nearTie(num, den *big.Int) bool {
	// |frac(num/den) - 1/2| * den <= small  <=>  |2r - d| <= 2  (r Euclidean remainder)
	n, d := new(big.Int).Set(num), new(big.Int).Set(den)
	if d.Sign() < 0 {
		n.Neg(n)
		d.Neg(d)
	}
	r := new(big.Int).Mod(n, d)
	x := new(big.Int).Lsh(r, 1)
	x.Sub(x, d)
	x.Abs(x)
	return x.Cmp(big.NewInt(2)) <= 0 && d.Cmp(bigOne) > 0
}

type callResult struct {
	panicked bool
	pv       interface{}
}

func catch(f func()) (res callResult) {
	defer func() {
		if r := recover(); r != nil {
			res.panicked = true
			res.pv = r
		}
	}()
	f()
	return
}

func inRange(v *big.Int, bits int, signed bool) bool {
	if !signed && v.Sign() < 0 {
		return false
	}
	return v.BitLen() <= bits
}

// nearBound: within 2 of the range bound on either side
func nearBound(v *big.Int, bits int) bool {
	m := new(big.Int).Lsh(bigOne, uint(bits))
	a := new(big.Int).Abs(v)
	a.Sub(a, m)
	a.Abs(a)
	return a.Cmp(big.NewInt(2)) <= 0
}

// expectBig checks "exact result if representable, otherwise panic".
func expectBig(sig string, e *c18Eval, exact *big.Int, bits int, signed bool, got *big.Int, res callResult) *Violation {
	if exact == nil { // must panic (division by zero)
		if !res.panicked {
			return violf("C18/"+sig+"/no-panic", "%s.%s(%s,%s,%d): expected a panic, got %v", e.Kind, e.Op, e.A, e.B, e.I64, got)
		}
		return nil
	}
	if !inRange(exact, bits, signed) {
		if !res.panicked {
			return violf("C18/"+sig+"/out-of-range-result", "%s.%s(%s,%s,%d): exact result %s is not representable (%d bits) but no panic; got %v",
				e.Kind, e.Op, e.A, e.B, e.I64, exact, exact.BitLen(), got)
		}
		return nil
	}
	if res.panicked {
		return violf("C18/"+sig+"/spurious-panic", "%s.%s(%s,%s,%d): representable result %s but panic %v", e.Kind, e.Op, e.A, e.B, e.I64, exact, res.pv)
	}
	if got == nil || got.Cmp(exact) != 0 {
		return violf("C18/"+sig+"/wrong-result", "%s.%s(%s,%s,%d): got %v want %s", e.Kind, e.Op, e.A, e.B, e.I64, got, exact)
	}
	return nil
}

func cmpFlags(c int) [5]bool { return [5]bool{c == 0, c > 0, c >= 0, c < 0, c <= 0} }

// ---------------------------------------------------------------------------------------------
// executor

func execC18(prog interface{}, c *Case) *Violation {
	p := prog.(*c18Prog)
	for i := range p.Evals {
		e := &p.Evals[i]
		nt, v := execC18One(e, c)
		c.Eval(fmt.Sprintf("%v", *e), nt)
		c.Label(e.Kind + "." + e.Op)
		if v != nil {
			return v
		}
	}
	return nil
}

func execC18One(e *c18Eval, c *Case) (bool, *Violation) {
	switch e.Kind {
	case "int":
		return c18Int(e, c)
	case "uint":
		return c18Uint(e, c)
	case "dec":
		return c18Dec(e, c)
	case "coins":
		return c18Coins(e, c)
	case "deccoins":
		return c18DecCoins(e, c)
	case "power":
		return c18Power(e, c)
	case "coin1":
		return c18Coin1(e, c)
	}
	panic("harness: bad kind " + e.Kind)
}

func c18Int(e *c18Eval, c *Case) (bool, *Violation) {
	a, b := mustBig(e.A), mustBig(e.B)
	if !inRange(a, intBits, true) || !inRange(b, intBits, true) {
		return false, nil // not a valid operand (only reachable by a hand-edited replay)
	}
	ia, ib := sdk.NewIntFromBigInt(new(big.Int).Set(a)), sdk.NewIntFromBigInt(new(big.Int).Set(b))
	if e.Alias && a.Cmp(b) == 0 {
		ib = ia
	}
	i64 := big.NewInt(e.I64)
	var exact *big.Int
	var got *big.Int
	var res callResult
	call := func(f func() sdk.Int) {
		res = catch(func() { r := f(); got = r.BigInt() })
	}
	quoT := func(x, y *big.Int) *big.Int {
		if y.Sign() == 0 {
			return nil
		}
		return divRound(x, y, "trunc")
	}
	nt := false
	switch e.Op {
	case "Add":
		exact = new(big.Int).Add(a, b)
		call(func() sdk.Int { return ia.Add(ib) })
	case "Sub":
		exact = new(big.Int).Sub(a, b)
		call(func() sdk.Int { return ia.Sub(ib) })
	case "Mul":
		exact = new(big.Int).Mul(a, b)
		call(func() sdk.Int { return ia.Mul(ib) })
	case "Quo":
		exact = quoT(a, b)
		call(func() sdk.Int { return ia.Quo(ib) })
	case "Mod":
		if a.Sign() < 0 { // remainder convention for negative dividends is not stated: not asserted
			a.Abs(a)
			ia = sdk.NewIntFromBigInt(new(big.Int).Set(a))
		}
		if b.Sign() != 0 {
			exact = new(big.Int).Mod(a, new(big.Int).Abs(b))
		}
		call(func() sdk.Int { return ia.Mod(ib) })
	case "Neg":
		exact = new(big.Int).Neg(a)
		call(func() sdk.Int { return ia.Neg() })
	case "AddRaw":
		exact = new(big.Int).Add(a, i64)
		call(func() sdk.Int { return ia.AddRaw(e.I64) })
	case "SubRaw":
		exact = new(big.Int).Sub(a, i64)
		call(func() sdk.Int { return ia.SubRaw(e.I64) })
	case "MulRaw":
		exact = new(big.Int).Mul(a, i64)
		call(func() sdk.Int { return ia.MulRaw(e.I64) })
	case "QuoRaw":
		exact = quoT(a, i64)
		call(func() sdk.Int { return ia.QuoRaw(e.I64) })
	case "ModRaw":
		if a.Sign() < 0 {
			a.Abs(a)
			ia = sdk.NewIntFromBigInt(new(big.Int).Set(a))
		}
		if i64.Sign() != 0 {
			exact = new(big.Int).Mod(a, new(big.Int).Abs(i64))
		}
		call(func() sdk.Int { return ia.ModRaw(e.I64) })
	case "Min":
		exact = a
		if b.Cmp(a) < 0 {
			exact = b
		}
		call(func() sdk.Int { return sdk.MinInt(ia, ib) })
	case "Max":
		exact = a
		if b.Cmp(a) > 0 {
			exact = b
		}
		call(func() sdk.Int { return sdk.MaxInt(ia, ib) })
	case "Cmp":
		want := cmpFlags(a.Cmp(b))
		gotF := [5]bool{ia.Equal(ib), ia.GT(ib), ia.GTE(ib), ia.LT(ib), ia.LTE(ib)}
		if want != gotF {
			return false, violf("C18/int/Cmp", "Int compare %s ? %s: got %v want %v", e.A, e.B, gotF, want)
		}
		return a.Cmp(b) == 0 || new(big.Int).Abs(new(big.Int).Sub(a, b)).Cmp(bigOne) == 0, c18Unmutated(e, ia, ib, a, b)
	case "Sign":
		if ia.Sign() != a.Sign() || ia.IsZero() != (a.Sign() == 0) || ia.IsNegative() != (a.Sign() < 0) || ia.IsPositive() != (a.Sign() > 0) {
			return false, violf("C18/int/Sign", "Int sign predicates wrong for %s", e.A)
		}
		return false, nil
	case "Int64":
		var g int64
		res = catch(func() { g = ia.Int64() })
		if a.IsInt64() != ia.IsInt64() {
			return true, violf("C18/int/IsInt64", "IsInt64(%s) = %v", e.A, ia.IsInt64())
		}
		if a.IsInt64() {
			if res.panicked || g != a.Int64() {
				return true, violf("C18/int/Int64/wrong-result", "Int64(%s) = %d panic=%v", e.A, g, res.pv)
			}
		} else if !res.panicked {
			return true, violf("C18/int/Int64/out-of-range-result", "Int64(%s) returned %d instead of panicking", e.A, g)
		}
		return nearBound(a, 63), nil
	case "ToDec":
		var d sdk.Dec
		res = catch(func() { d = ia.ToDec() })
		exact = new(big.Int).Mul(a, bigTen18)
		if res.panicked || d.Int.Cmp(exact) != 0 {
			return false, violf("C18/int/ToDec", "ToDec(%s) = %v panic=%v", e.A, d, res.pv)
		}
		return false, c18Unmutated(e, ia, ib, a, b)
	case "Str":
		s := ia.String()
		back, ok := sdk.NewIntFromString(s)
		if s != a.String() || !ok || back.BigInt().Cmp(a) != 0 {
			return false, violf("C18/int/Str", "string round trip of %s gave %q ok=%v", e.A, s, ok)
		}
		return false, nil
	default:
		panic("harness: bad int op " + e.Op)
	}
	if v := expectBig("int/"+e.Op, e, exact, intBits, true, got, res); v != nil {
		return true, v
	}
	if exact != nil && nearBound(exact, intBits) {
		nt = true
	}
	if exact == nil {
		nt = true
	}
	return nt, c18Unmutated(e, ia, ib, a, b)
}

func c18Unmutated(e *c18Eval, ia, ib sdk.Int, a, b *big.Int) *Violation {
	if ia.BigInt().Cmp(a) != 0 || ib.BigInt().Cmp(b) != 0 {
		return violf("C18/operand-mutated", "%s.%s mutated an operand: a %s -> %s, b %s -> %s", e.Kind, e.Op, a, ia, b, ib)
	}
	return nil
}

func c18Uint(e *c18Eval, c *Case) (bool, *Violation) {
	a, b := mustBig(e.A), mustBig(e.B)
	if !inRange(a, uintBits, false) || !inRange(b, uintBits, false) {
		return false, nil
	}
	ua, ub := sdk.NewUintFromBigInt(new(big.Int).Set(a)), sdk.NewUintFromBigInt(new(big.Int).Set(b))
	if e.Alias && a.Cmp(b) == 0 {
		ub = ua
	}
	u64 := uint64(e.I64)
	bu := new(big.Int).SetUint64(u64)
	var exact, got *big.Int
	var res callResult
	call := func(f func() sdk.Uint) {
		res = catch(func() { r := f(); got = mustBig(r.String()) })
	}
	quo := func(x, y *big.Int) *big.Int {
		if y.Sign() == 0 {
			return nil
		}
		return new(big.Int).Quo(x, y)
	}
	switch e.Op {
	case "Add":
		exact = new(big.Int).Add(a, b)
		call(func() sdk.Uint { return ua.Add(ub) })
	case "Sub":
		exact = new(big.Int).Sub(a, b)
		call(func() sdk.Uint { return ua.Sub(ub) })
	case "Mul":
		exact = new(big.Int).Mul(a, b)
		call(func() sdk.Uint { return ua.Mul(ub) })
	case "Quo":
		exact = quo(a, b)
		call(func() sdk.Uint { return ua.Quo(ub) })
	case "AddUint64":
		exact = new(big.Int).Add(a, bu)
		call(func() sdk.Uint { return ua.AddUint64(u64) })
	case "SubUint64":
		exact = new(big.Int).Sub(a, bu)
		call(func() sdk.Uint { return ua.SubUint64(u64) })
	case "MulUint64":
		exact = new(big.Int).Mul(a, bu)
		call(func() sdk.Uint { return ua.MulUint64(u64) })
	case "QuoUint64":
		exact = quo(a, bu)
		call(func() sdk.Uint { return ua.QuoUint64(u64) })
	case "Min":
		exact = a
		if b.Cmp(a) < 0 {
			exact = b
		}
		call(func() sdk.Uint { return sdk.MinUint(ua, ub) })
	case "Max":
		exact = a
		if b.Cmp(a) > 0 {
			exact = b
		}
		call(func() sdk.Uint { return sdk.MaxUint(ua, ub) })
	case "Cmp":
		want := cmpFlags(a.Cmp(b))
		gotF := [5]bool{ua.Equal(ub), ua.GT(ub), ua.GTE(ub), ua.LT(ub), ua.LTE(ub)}
		if want != gotF {
			return false, violf("C18/uint/Cmp", "Uint compare %s ? %s: got %v want %v", e.A, e.B, gotF, want)
		}
		return a.Cmp(b) == 0, nil
	case "Uint64":
		var g uint64
		res = catch(func() { g = ua.Uint64() })
		if a.IsUint64() {
			if res.panicked || g != a.Uint64() {
				return true, violf("C18/uint/Uint64/wrong-result", "Uint64(%s) = %d panic=%v", e.A, g, res.pv)
			}
		} else if !res.panicked {
			return true, violf("C18/uint/Uint64/out-of-range-result", "Uint64(%s) returned %d instead of panicking", e.A, g)
		}
		return nearBound(a, 64), nil
	case "Str":
		s := ua.String()
		back, err := sdk.ParseUint(s)
		if s != a.String() || err != nil || back.String() != s {
			return false, violf("C18/uint/Str", "string round trip of %s gave %q err=%v", e.A, s, err)
		}
		return false, nil
	default:
		panic("harness: bad uint op " + e.Op)
	}
	if v := expectBig("uint/"+e.Op, e, exact, uintBits, false, got, res); v != nil {
		return true, v
	}
	if ua.String() != a.String() || ub.String() != b.String() {
		return true, violf("C18/operand-mutated", "uint.%s mutated an operand", e.Op)
	}
	return exact == nil || nearBound(exact, uintBits) || exact.Sign() < 0 || exact.Sign() == 0, nil
}

// the library's Quo family: quotient truncated to 36 digits first, then rounded (observation #11)
func twoStepQuo(a, b *big.Int, mode string) *big.Int {
	num := new(big.Int).Mul(a, bigTen36)
	q36 := new(big.Int).Quo(num, b) // toward zero
	return divRound(q36, bigTen18, modeForSign(mode, q36))
}

// chopPrecisionAndRoundUp truncates negatives; even / trunc are sign-symmetric
func modeForSign(mode string, v *big.Int) string { return mode }

func c18Dec(e *c18Eval, c *Case) (bool, *Violation) {
	a, b := mustBig(e.A), mustBig(e.B)
	if !inRange(a, decBits, true) || !inRange(b, decBits, true) {
		return false, nil
	}
	da, db := sdk.Dec{Int: new(big.Int).Set(a)}, sdk.Dec{Int: new(big.Int).Set(b)}
	if e.Alias && a.Cmp(b) == 0 {
		db = da
	}
	i64 := big.NewInt(e.I64)
	var exact, got *big.Int
	var res callResult
	bits := decBits
	call := func(f func() sdk.Dec) {
		res = catch(func() { r := f(); got = new(big.Int).Set(r.Int) })
	}
	callI := func(f func() sdk.Int) {
		res = catch(func() { r := f(); got = r.BigInt() })
	}
	nt := false
	unmut := func() *Violation {
		if da.Int.Cmp(a) != 0 || db.Int.Cmp(b) != 0 {
			return violf("C18/operand-mutated", "dec.%s mutated an operand: a %s -> %s, b %s -> %s", e.Op, a, da.Int, b, db.Int)
		}
		return nil
	}
	quoFamily := func(mode string, f func() sdk.Dec) (bool, *Violation) {
		call(f)
		if b.Sign() == 0 {
			if !res.panicked {
				return true, violf("C18/dec/"+e.Op+"/no-panic", "division by zero returned %v", got)
			}
			return true, nil
		}
		num := new(big.Int).Mul(a, bigTen18)
		exact = divRound(num, b, mode)
		tie := nearTie(num, b)
		if v := expectBig("dec/"+e.Op, e, exact, decBits, true, got, res); v != nil {
			// known finding #11: the 36-digit intermediate truncation changes the rounding decision
			two := twoStepQuo(a, b, mode)
			if got != nil && !res.panicked && two.Cmp(got) == 0 && two.Cmp(exact) != 0 {
				sig := "C18/dec/quo-36-digit-double-rounding"
				if c.Known(sig) {
					return true, nil
				}
				return true, violf(sig, "dec.%s(%s,%s): got %s, exact rounding gives %s; the quotient is truncated to 36 digits before rounding",
					e.Op, e.A, e.B, got, exact)
			}
			return true, v
		}
		return tie || nearBound(exact, decBits), unmut()
	}
	switch e.Op {
	case "Add":
		exact = new(big.Int).Add(a, b)
		call(func() sdk.Dec { return da.Add(db) })
	case "Sub":
		exact = new(big.Int).Sub(a, b)
		call(func() sdk.Dec { return da.Sub(db) })
	case "Mul":
		pr := new(big.Int).Mul(a, b)
		exact = divRound(pr, bigTen18, "even")
		nt = nearTie(pr, bigTen18)
		call(func() sdk.Dec { return da.Mul(db) })
	case "MulTruncate":
		pr := new(big.Int).Mul(a, b)
		exact = divRound(pr, bigTen18, "trunc")
		nt = nearTie(pr, bigTen18)
		call(func() sdk.Dec { return da.MulTruncate(db) })
	case "MulInt":
		ib := new(big.Int).Set(b)
		if !inRange(ib, intBits, true) {
			ib.Rsh(ib, 64)
		}
		exact = new(big.Int).Mul(a, ib)
		call(func() sdk.Dec { return da.MulInt(sdk.NewIntFromBigInt(new(big.Int).Set(ib))) })
	case "MulInt64":
		exact = new(big.Int).Mul(a, i64)
		call(func() sdk.Dec { return da.MulInt64(e.I64) })
	case "Quo":
		return quoFamily("even", func() sdk.Dec { return da.Quo(db) })
	case "QuoTruncate":
		return quoFamily("trunc", func() sdk.Dec { return da.QuoTruncate(db) })
	case "QuoRoundUp":
		return quoFamily("up", func() sdk.Dec { return da.QuoRoundUp(db) })
	case "QuoInt": // documented upstream as plain integer division of the representation (truncating)
		ib := new(big.Int).Set(b)
		if !inRange(ib, intBits, true) {
			ib.Rsh(ib, 64)
		}
		if ib.Sign() != 0 {
			exact = divRound(a, ib, "trunc")
		}
		call(func() sdk.Dec { return da.QuoInt(sdk.NewIntFromBigInt(new(big.Int).Set(ib))) })
	case "QuoInt64":
		if i64.Sign() != 0 {
			exact = divRound(a, i64, "trunc")
		}
		call(func() sdk.Dec { return da.QuoInt64(e.I64) })
	case "RoundInt":
		exact = divRound(a, bigTen18, "even")
		bits = intBits
		nt = nearTie(a, bigTen18)
		callI(func() sdk.Int { return da.RoundInt() })
	case "TruncateInt":
		exact = divRound(a, bigTen18, "trunc")
		bits = intBits
		callI(func() sdk.Int { return da.TruncateInt() })
	case "RoundInt64", "TruncateInt64":
		mode := "even"
		if e.Op == "TruncateInt64" {
			mode = "trunc"
		}
		exact = divRound(a, bigTen18, mode)
		var g int64
		res = catch(func() {
			if e.Op == "RoundInt64" {
				g = da.RoundInt64()
			} else {
				g = da.TruncateInt64()
			}
		})
		if exact.IsInt64() {
			if res.panicked || g != exact.Int64() {
				return true, violf("C18/dec/"+e.Op+"/wrong-result", "%s(%s) = %d (panic %v) want %s", e.Op, e.A, g, res.pv, exact)
			}
		} else if !res.panicked {
			return true, violf("C18/dec/"+e.Op+"/out-of-range-result", "%s(%s) returned %d, exact %s does not fit int64", e.Op, e.A, g, exact)
		}
		return nearTie(a, bigTen18) || nearBound(exact, 63), unmut()
	case "TruncateDec":
		exact = new(big.Int).Mul(divRound(a, bigTen18, "trunc"), bigTen18)
		call(func() sdk.Dec { return da.TruncateDec() })
	case "Ceil":
		exact = new(big.Int).Mul(divRound(a, bigTen18, "up"), bigTen18)
		call(func() sdk.Dec { return da.Ceil() })
	case "IsInteger":
		want := new(big.Int).Rem(a, bigTen18).Sign() == 0
		if da.IsInteger() != want {
			return false, violf("C18/dec/IsInteger", "IsInteger(%s) = %v", e.A, !want)
		}
		return false, unmut()
	case "Neg":
		exact = new(big.Int).Neg(a)
		call(func() sdk.Dec { return da.Neg() })
	case "Abs":
		exact = new(big.Int).Abs(a)
		call(func() sdk.Dec { return da.Abs() })
	case "Cmp":
		want := cmpFlags(a.Cmp(b))
		gotF := [5]bool{da.Equal(db), da.GT(db), da.GTE(db), da.LT(db), da.LTE(db)}
		if want != gotF {
			return false, violf("C18/dec/Cmp", "Dec compare %s ? %s: got %v want %v", e.A, e.B, gotF, want)
		}
		mn, mx := sdk.MinDec(da, db), sdk.MaxDec(da, db)
		if (a.Cmp(b) <= 0 && (mn.Int.Cmp(a) != 0 || mx.Int.Cmp(b) != 0)) || (a.Cmp(b) > 0 && (mn.Int.Cmp(b) != 0 || mx.Int.Cmp(a) != 0)) {
			return false, violf("C18/dec/MinMax", "MinDec/MaxDec(%s,%s) = %s,%s", e.A, e.B, mn.Int, mx.Int)
		}
		return a.Cmp(b) == 0, unmut()
	case "Str":
		s := da.String()
		back, err := sdk.NewDecFromStr(s)
		if err != nil || back.Int.Cmp(a) != 0 {
			return false, violf("C18/dec/Str", "string round trip of raw %s gave %q err=%v", e.A, s, err)
		}
		// the string must denote raw/10^18 exactly
		r, ok := new(big.Rat).SetString(s)
		if !ok || r.Cmp(new(big.Rat).SetFrac(a, bigTen18)) != 0 {
			return false, violf("C18/dec/Str", "String() of raw %s is %q which is not raw/10^18", e.A, s)
		}
		return a.Sign() < 0 || new(big.Int).Abs(a).Cmp(bigTen18) < 0, unmut()
	case "FromInt":
		ib := new(big.Int).Set(b)
		if !inRange(ib, intBits, true) {
			ib.Rsh(ib, 64)
		}
		exact = new(big.Int).Mul(ib, bigTen18)
		call(func() sdk.Dec { return sdk.NewDecFromInt(sdk.NewIntFromBigInt(new(big.Int).Set(ib))) })
	default:
		panic("harness: bad dec op " + e.Op)
	}
	if v := expectBig("dec/"+e.Op, e, exact, bits, true, got, res); v != nil {
		return true, v
	}
	if exact == nil || nearBound(exact, bits) {
		nt = true
	}
	return nt, unmut()
}

// c18Coin1: operations on a single Coin / DecCoin pair
func c18Coin1(e *c18Eval, c *Case) (bool, *Violation) {
	if len(e.CA) != 1 || len(e.CB) != 1 {
		return false, nil
	}
	dec := e.Den == "dec"
	bits := intBits
	if dec {
		bits = decBits
	}
	a, b := mustBig(e.CA[0].A), mustBig(e.CB[0].A)
	if a.Sign() < 0 || b.Sign() < 0 || a.BitLen() > bits || b.BitLen() > bits {
		return false, nil
	}
	da, db := e.CA[0].D, e.CB[0].D
	desc := fmt.Sprintf("coin1[dec=%v].%s(%s%s, %s%s)", dec, e.Op, a, da, b, db)
	var gotAmt *big.Int
	var gotDen string
	var gotBool bool
	var res callResult
	if dec {
		x, y := sdk.DecCoin{Denom: da, Amount: sdk.Dec{Int: new(big.Int).Set(a)}}, sdk.DecCoin{Denom: db, Amount: sdk.Dec{Int: new(big.Int).Set(b)}}
		res = catch(func() {
			switch e.Op {
			case "Add":
				r := x.Add(y)
				gotAmt, gotDen = r.Amount.Int, r.Denom
			case "Sub":
				r := x.Sub(y)
				gotAmt, gotDen = r.Amount.Int, r.Denom
			case "IsGTE":
				gotBool = x.IsGTE(y)
			case "IsLT":
				gotBool = x.IsLT(y)
			case "IsEqual":
				gotBool = x.IsEqual(y)
			case "Preds":
				gotBool = x.IsZero() == (a.Sign() == 0) && x.IsPositive() == (a.Sign() > 0) && !x.IsNegative()
			}
		})
		if x.Amount.Int.Cmp(a) != 0 || y.Amount.Int.Cmp(b) != 0 {
			return true, violf("C18/operand-mutated", "%s mutated an operand", desc)
		}
	} else {
		x, y := sdk.Coin{Denom: da, Amount: sdk.NewIntFromBigInt(new(big.Int).Set(a))}, sdk.Coin{Denom: db, Amount: sdk.NewIntFromBigInt(new(big.Int).Set(b))}
		res = catch(func() {
			switch e.Op {
			case "Add":
				r := x.Add(y)
				gotAmt, gotDen = r.Amount.BigInt(), r.Denom
			case "Sub":
				r := x.Sub(y)
				gotAmt, gotDen = r.Amount.BigInt(), r.Denom
			case "IsGTE":
				gotBool = x.IsGTE(y)
			case "IsLT":
				gotBool = x.IsLT(y)
			case "IsEqual":
				gotBool = x.IsEqual(y)
			case "Preds":
				gotBool = x.IsZero() == (a.Sign() == 0) && x.IsPositive() == (a.Sign() > 0) && !x.IsNegative()
			}
		})
		if x.Amount.BigInt().Cmp(a) != 0 || y.Amount.BigInt().Cmp(b) != 0 {
			return true, violf("C18/operand-mutated", "%s mutated an operand", desc)
		}
	}
	if e.Op == "Preds" {
		if res.panicked || !gotBool {
			return false, violf("C18/coin1/Preds", "%s: IsZero/IsPositive/IsNegative disagree with the amount (panic %v)", desc, res.pv)
		}
		return false, nil
	}
	if da != db {
		// operations across denominations are refused; IsEqual may also simply answer false
		if !res.panicked && !(e.Op == "IsEqual" && !gotBool) {
			return true, violf("C18/coin1/"+e.Op+"/mixed-denominations", "%s returned a result (%v %v %s) instead of refusing", desc, gotBool, gotAmt, gotDen)
		}
		return true, nil
	}
	switch e.Op {
	case "Add", "Sub":
		exact := new(big.Int).Add(a, b)
		if e.Op == "Sub" {
			exact = new(big.Int).Sub(a, b)
		}
		if exact.Sign() < 0 || exact.BitLen() > bits {
			if !res.panicked {
				return true, violf("C18/coin1/"+e.Op+"/out-of-range-result", "%s: exact result %s is negative or not representable but no panic; got %v", desc, exact, gotAmt)
			}
			return true, nil
		}
		if res.panicked {
			return false, violf("C18/coin1/"+e.Op+"/spurious-panic", "%s panicked: %v", desc, res.pv)
		}
		if gotAmt == nil || gotAmt.Cmp(exact) != 0 || gotDen != da {
			return false, violf("C18/coin1/"+e.Op+"/wrong-result", "%s = %v%s want %s%s", desc, gotAmt, gotDen, exact, da)
		}
		return exact.Sign() == 0 || exact.BitLen() >= bits-1, nil
	default:
		want := map[string]bool{"IsGTE": a.Cmp(b) >= 0, "IsLT": a.Cmp(b) < 0, "IsEqual": a.Cmp(b) == 0}[e.Op]
		if res.panicked || gotBool != want {
			return false, violf("C18/coin1/"+e.Op+"/wrong-result", "%s = %v (panic %v) want %v", desc, gotBool, res.pv, want)
		}
		return a.Cmp(b) == 0, nil
	}
}

func c18Power(e *c18Eval, c *Case) (bool, *Violation) {
	switch e.Op {
	case "ToPower":
		a := mustBig(e.A)
		if !inRange(a, intBits, true) {
			return false, nil
		}
		exact := divRound(a, bigTen6, "trunc")
		var g int64
		res := catch(func() { g = sdk.TokensToConsensusPower(sdk.NewIntFromBigInt(new(big.Int).Set(a))) })
		if exact.IsInt64() {
			if res.panicked || g != exact.Int64() {
				return true, violf("C18/power/ToPower/wrong-result", "TokensToConsensusPower(%s) = %d panic=%v want %s", e.A, g, res.pv, exact)
			}
		} else if !res.panicked {
			return true, violf("C18/power/ToPower/out-of-range-result", "TokensToConsensusPower(%s) = %d, exact %s", e.A, g, exact)
		}
		return new(big.Int).Mod(new(big.Int).Abs(a), bigTen6).Sign() != 0 || nearBound(exact, 63), nil
	case "FromPower":
		exact := new(big.Int).Mul(big.NewInt(e.I64), bigTen6)
		var got *big.Int
		res := catch(func() { got = sdk.TokensFromConsensusPower(e.I64).BigInt() })
		return false, expectBig("power/FromPower", e, exact, intBits, true, got, res)
	}
	panic("harness: bad power op")
}

// ---------------------------------------------------------------------------------------------
// coins

func toCoins(cs []c18Coin) (sdk.Coins, map[string]*big.Int) {
	var out sdk.Coins
	m := map[string]*big.Int{}
	for _, c := range cs {
		a := mustBig(c.A)
		out = append(out, sdk.Coin{Denom: c.D, Amount: sdk.NewIntFromBigInt(new(big.Int).Set(a))})
		m[c.D] = a
	}
	return out, m
}

func coinsValidInput(cs []c18Coin, bits int) bool {
	for i, c := range cs {
		a, ok := new(big.Int).SetString(c.A, 10)
		if !ok || a.Sign() <= 0 || a.BitLen() > bits {
			return false
		}
		if i > 0 && cs[i-1].D >= c.D {
			return false
		}
	}
	return true
}

func coinsToMap(cs sdk.Coins) (map[string]*big.Int, bool) {
	m := map[string]*big.Int{}
	for _, c := range cs {
		if _, dup := m[c.Denom]; dup {
			return m, false
		}
		m[c.Denom] = c.Amount.BigInt()
	}
	return m, true
}

func mapsEqual(a, b map[string]*big.Int) bool {
	if len(a) != len(b) {
		return false
	}
	for k, v := range a {
		w, ok := b[k]
		if !ok || w.Cmp(v) != 0 {
			return false
		}
	}
	return true
}

func fmtMap(m map[string]*big.Int) string {
	var ks []string
	for k := range m {
		ks = append(ks, k)
	}
	sort.Strings(ks)
	var sb strings.Builder
	for _, k := range ks {
		fmt.Fprintf(&sb, "%s%s,", m[k], k)
	}
	return sb.String()
}

// exact per-denomination sum a + s*b with zero entries removed
func mapAdd(a, b map[string]*big.Int, s int64) map[string]*big.Int {
	out := map[string]*big.Int{}
	for k, v := range a {
		out[k] = new(big.Int).Set(v)
	}
	for k, v := range b {
		x, ok := out[k]
		if !ok {
			x = new(big.Int)
			out[k] = x
		}
		x.Add(x, new(big.Int).Mul(v, big.NewInt(s)))
	}
	for k, v := range out {
		if v.Sign() == 0 {
			delete(out, k)
		}
	}
	return out
}

func mapOverflows(m map[string]*big.Int, bits int) bool {
	for _, v := range m {
		if v.BitLen() > bits {
			return true
		}
	}
	return false
}

func mapAnyNeg(m map[string]*big.Int) bool {
	for _, v := range m {
		if v.Sign() < 0 {
			return true
		}
	}
	return false
}

func sharesDenom(a, b map[string]*big.Int) bool {
	for k := range a {
		if _, ok := b[k]; ok {
			return true
		}
	}
	return false
}

func amt(m map[string]*big.Int, d string) *big.Int {
	if v, ok := m[d]; ok {
		return v
	}
	return new(big.Int)
}

func c18Coins(e *c18Eval, c *Case) (bool, *Violation) {
	if !coinsValidInput(e.CA, intBits) || !coinsValidInput(e.CB, intBits) {
		return false, nil
	}
	A, ma := toCoins(e.CA)
	B, mb := toCoins(e.CB)
	if e.Alias && mapsEqual(ma, mb) {
		B = A // the same slice and the same Int objects
	}
	if !A.IsValid() || !B.IsValid() {
		return false, violf("C18/coins/IsValid", "canonical operand rejected by IsValid: %v %v", A, B)
	}
	nt := sharesDenom(ma, mb)
	desc := fmt.Sprintf("coins.%s(%s ; %s)", e.Op, fmtMap(ma), fmtMap(mb))
	checkRes := func(op string, got sdk.Coins, want map[string]*big.Int, mustValid bool) *Violation {
		gm, nodup := coinsToMap(got)
		if !nodup || !mapsEqual(gm, want) {
			return violf("C18/coins/"+op+"/wrong-result", "%s = %v want %s", desc, got, fmtMap(want))
		}
		if mustValid && !got.IsValid() {
			return violf("C18/coins/"+op+"/not-canonical", "%s = %v is not in canonical form", desc, got)
		}
		for i := 1; i < len(got); i++ {
			if got[i-1].Denom >= got[i].Denom {
				return violf("C18/coins/"+op+"/not-canonical", "%s = %v is not sorted", desc, got)
			}
		}
		for _, g := range got {
			if g.Amount.IsZero() {
				return violf("C18/coins/"+op+"/not-canonical", "%s = %v keeps a zero amount", desc, got)
			}
		}
		return nil
	}
	unmut := func() *Violation {
		A2, _ := toCoins(e.CA)
		B2, _ := toCoins(e.CB)
		if fmt.Sprint(A) != fmt.Sprint(A2) || fmt.Sprint(B) != fmt.Sprint(B2) {
			return violf("C18/operand-mutated", "%s mutated an operand: %v %v", desc, A, B)
		}
		return nil
	}
	switch e.Op {
	case "Add":
		want := mapAdd(ma, mb, 1)
		var got sdk.Coins
		res := catch(func() { got = A.Add(B) })
		if mapOverflows(want, intBits) {
			if !res.panicked {
				return true, violf("C18/coins/Add/out-of-range-result", "%s overflowed silently: %v", desc, got)
			}
			return true, nil
		}
		if res.panicked {
			return nt, violf("C18/coins/Add/spurious-panic", "%s panicked: %v", desc, res.pv)
		}
		if v := checkRes("Add", got, want, true); v != nil {
			return nt, v
		}
	case "Sub", "SafeSub":
		want := mapAdd(ma, mb, -1)
		neg := mapAnyNeg(want)
		var got sdk.Coins
		var flag bool
		res := catch(func() {
			if e.Op == "Sub" {
				got = A.Sub(B)
			} else {
				got, flag = A.SafeSub(B)
			}
		})
		if e.Op == "Sub" {
			if neg != res.panicked {
				return nt, violf("C18/coins/Sub/panic-mismatch", "%s: negative=%v panicked=%v (%v) got %v", desc, neg, res.panicked, res.pv, got)
			}
			if !neg {
				if v := checkRes("Sub", got, want, true); v != nil {
					return nt, v
				}
			}
		} else {
			if res.panicked {
				return nt, violf("C18/coins/SafeSub/spurious-panic", "%s panicked: %v", desc, res.pv)
			}
			if flag != neg {
				return nt, violf("C18/coins/SafeSub/flag", "%s: flag=%v but exact difference %s", desc, flag, fmtMap(want))
			}
			if v := checkRes("SafeSub", got, want, !neg); v != nil {
				return nt, v
			}
		}
	case "AddSub":
		sum := mapAdd(ma, mb, 1)
		if mapOverflows(sum, intBits) {
			return false, nil
		}
		var got sdk.Coins
		res := catch(func() { got = A.Add(B).Sub(B) })
		if res.panicked {
			return nt, violf("C18/coins/AddSub/spurious-panic", "%s panicked: %v", desc, res.pv)
		}
		if v := checkRes("AddSub", got, ma, true); v != nil {
			return nt, v
		}
	case "IsAllGT", "IsAllGTE", "IsAllLT", "IsAllLTE", "IsAnyGT", "IsAnyGTE":
		// documented per-denomination definitions, computed on maps
		allGT := func(x, y map[string]*big.Int) bool { // every denom of y present in x at a greater amount
			if len(x) == 0 {
				return false
			}
			for d, v := range y {
				if amt(x, d).Cmp(v) <= 0 {
					return false
				}
			}
			return true
		}
		allGTE := func(x, y map[string]*big.Int) bool { // no denom of y present at a smaller amount in x
			for d, v := range y {
				if amt(x, d).Cmp(v) < 0 {
					return false
				}
			}
			return true
		}
		anyCmp := func(x, y map[string]*big.Int, strict bool) bool { // some denom of x also in y with x > (>=) y
			for d, v := range x {
				w, ok := y[d]
				if !ok {
					continue
				}
				if cm := v.Cmp(w); cm > 0 || (!strict && cm == 0) {
					return true
				}
			}
			return false
		}
		var want, got bool
		switch e.Op {
		case "IsAllGT":
			want, got = allGT(ma, mb), A.IsAllGT(B)
		case "IsAllGTE":
			want, got = allGTE(ma, mb), A.IsAllGTE(B)
		case "IsAllLT":
			want, got = allGT(mb, ma), A.IsAllLT(B)
		case "IsAllLTE":
			want, got = allGTE(mb, ma), A.IsAllLTE(B)
		case "IsAnyGT":
			want, got = anyCmp(ma, mb, true), A.IsAnyGT(B)
		case "IsAnyGTE":
			want, got = anyCmp(ma, mb, false), A.IsAnyGTE(B)
		}
		if want != got {
			return nt, violf("C18/coins/"+e.Op, "%s = %v, per-denomination definition gives %v", desc, got, want)
		}
	case "IsEqual":
		sameDenoms := len(ma) == len(mb)
		for d := range ma {
			if _, ok := mb[d]; !ok {
				sameDenoms = false
			}
		}
		if len(ma) == len(mb) && !sameDenoms {
			return false, nil // documented panic on differing denominations (asserted by the shipped tests)
		}
		var got bool
		res := catch(func() { got = A.IsEqual(B) })
		if res.panicked || got != mapsEqual(ma, mb) {
			return nt, violf("C18/coins/IsEqual", "%s = %v panic=%v", desc, got, res.pv)
		}
	case "AmountOf":
		got := A.AmountOf(e.Den).BigInt()
		if got.Cmp(amt(ma, e.Den)) != 0 {
			return true, violf("C18/coins/AmountOf", "%s AmountOf(%s) = %s", desc, e.Den, got)
		}
		_, nt = ma[e.Den]
	case "DenomsSubsetOf":
		want := true
		for d := range ma {
			if _, ok := mb[d]; !ok {
				want = false
			}
		}
		if got := A.DenomsSubsetOf(B); got != want {
			return nt, violf("C18/coins/DenomsSubsetOf", "%s = %v", desc, got)
		}
	case "NewCoins":
		// canonicalisation: arbitrary order, zero coins interleaved; duplicates must panic
		var in []sdk.Coin
		for i := len(A) - 1; i >= 0; i-- {
			in = append(in, A[i])
			if i%2 == 0 {
				in = append(in, sdk.Coin{Denom: e.Den, Amount: sdk.ZeroInt()})
			}
		}
		var got sdk.Coins
		res := catch(func() { got = sdk.NewCoins(in...) })
		if res.panicked {
			return nt, violf("C18/coins/NewCoins/spurious-panic", "NewCoins(%v) panicked: %v", in, res.pv)
		}
		if v := checkRes("NewCoins", got, ma, true); v != nil {
			return nt, v
		}
		if len(A) > 0 {
			dup := append(append([]sdk.Coin{}, A...), A[0])
			res := catch(func() { got = sdk.NewCoins(dup...) })
			if !res.panicked {
				return true, violf("C18/coins/NewCoins/duplicate-accepted", "NewCoins(%v) = %v", dup, got)
			}
		}
		nt = len(A) > 1
	case "Str":
		s := A.String()
		back, err := sdk.ParseCoins(s)
		bm, _ := coinsToMap(back)
		if err != nil || !mapsEqual(bm, ma) {
			return nt, violf("C18/coins/Str", "ParseCoins(String()) of %s gave %v err=%v", fmtMap(ma), back, err)
		}
		nt = len(A) > 1
	case "Preds":
		if A.Empty() != (len(ma) == 0) || A.IsZero() != (len(ma) == 0) || A.IsAllPositive() != (len(ma) > 0) || A.IsAnyNegative() {
			return false, violf("C18/coins/Preds", "%s: Empty/IsZero/IsAllPositive/IsAnyNegative wrong", desc)
		}
		nt = false
	default:
		panic("harness: bad coins op " + e.Op)
	}
	return nt, unmut()
}

func toDecCoins(cs []c18Coin) (sdk.DecCoins, map[string]*big.Int) {
	var out sdk.DecCoins
	m := map[string]*big.Int{}
	for _, c := range cs {
		a := mustBig(c.A)
		out = append(out, sdk.DecCoin{Denom: c.D, Amount: sdk.Dec{Int: new(big.Int).Set(a)}})
		m[c.D] = a
	}
	return out, m
}

func decCoinsToMap(cs sdk.DecCoins) (map[string]*big.Int, bool) {
	m := map[string]*big.Int{}
	for _, c := range cs {
		if _, dup := m[c.Denom]; dup {
			return m, false
		}
		m[c.Denom] = new(big.Int).Set(c.Amount.Int)
	}
	return m, true
}

func c18DecCoins(e *c18Eval, c *Case) (bool, *Violation) {
	if !coinsValidInput(e.CA, decBits) || !coinsValidInput(e.CB, decBits) {
		return false, nil
	}
	A, ma := toDecCoins(e.CA)
	B, mb := toDecCoins(e.CB)
	nt := sharesDenom(ma, mb)
	d := mustBig(e.A)
	desc := fmt.Sprintf("deccoins.%s(%s ; %s ; %s)", e.Op, fmtMap(ma), fmtMap(mb), e.A)
	checkRes := func(op string, got sdk.DecCoins, want map[string]*big.Int, mustValid bool) *Violation {
		gm, nodup := decCoinsToMap(got)
		if !nodup || !mapsEqual(gm, want) {
			return violf("C18/deccoins/"+op+"/wrong-result", "%s = %v want %s", desc, got, fmtMap(want))
		}
		if mustValid && !got.IsValid() {
			return violf("C18/deccoins/"+op+"/not-canonical", "%s = %v is not canonical", desc, got)
		}
		return nil
	}
	unmut := func() *Violation {
		A2, _ := toDecCoins(e.CA)
		B2, _ := toDecCoins(e.CB)
		if fmt.Sprint(A) != fmt.Sprint(A2) || fmt.Sprint(B) != fmt.Sprint(B2) {
			return violf("C18/operand-mutated", "%s mutated an operand: %v %v", desc, A, B)
		}
		return nil
	}
	switch e.Op {
	case "Add":
		want := mapAdd(ma, mb, 1)
		var got sdk.DecCoins
		res := catch(func() { got = A.Add(B) })
		if mapOverflows(want, decBits) {
			if !res.panicked {
				return true, violf("C18/deccoins/Add/out-of-range-result", "%s overflowed silently", desc)
			}
			return true, nil
		}
		if res.panicked {
			return nt, violf("C18/deccoins/Add/spurious-panic", "%s: %v", desc, res.pv)
		}
		if v := checkRes("Add", got, want, true); v != nil {
			return nt, v
		}
	case "Sub", "SafeSub":
		want := mapAdd(ma, mb, -1)
		neg := mapAnyNeg(want)
		var got sdk.DecCoins
		var flag bool
		res := catch(func() {
			if e.Op == "Sub" {
				got = A.Sub(B)
			} else {
				got, flag = A.SafeSub(B)
			}
		})
		if e.Op == "Sub" {
			if neg != res.panicked {
				return nt, violf("C18/deccoins/Sub/panic-mismatch", "%s: negative=%v panicked=%v", desc, neg, res.panicked)
			}
			if !neg {
				if v := checkRes("Sub", got, want, true); v != nil {
					return nt, v
				}
			}
		} else {
			if res.panicked || flag != neg {
				return nt, violf("C18/deccoins/SafeSub/flag", "%s: flag=%v panic=%v exact %s", desc, flag, res.pv, fmtMap(want))
			}
			if v := checkRes("SafeSub", got, want, !neg); v != nil {
				return nt, v
			}
		}
	case "AddSub":
		if mapOverflows(mapAdd(ma, mb, 1), decBits) {
			return false, nil
		}
		var got sdk.DecCoins
		res := catch(func() { got = A.Add(B).Sub(B) })
		if res.panicked {
			return nt, violf("C18/deccoins/AddSub/spurious-panic", "%s: %v", desc, res.pv)
		}
		if v := checkRes("AddSub", got, ma, true); v != nil {
			return nt, v
		}
	case "Truncate":
		// integer parts + change sum to the original; integer parts must fit Int
		for _, v := range ma {
			if divRound(v, bigTen18, "trunc").BitLen() > intBits {
				return false, nil
			}
		}
		var tr sdk.Coins
		var ch sdk.DecCoins
		res := catch(func() { tr, ch = A.TruncateDecimal() })
		if res.panicked {
			return nt, violf("C18/deccoins/Truncate/spurious-panic", "%s: %v", desc, res.pv)
		}
		tm, ok1 := coinsToMap(tr)
		cm, ok2 := decCoinsToMap(ch)
		wantT, wantC := map[string]*big.Int{}, map[string]*big.Int{}
		for k, v := range ma {
			q := divRound(v, bigTen18, "trunc")
			r := new(big.Int).Sub(v, new(big.Int).Mul(q, bigTen18))
			if q.Sign() != 0 {
				wantT[k] = q
			}
			if r.Sign() != 0 {
				wantC[k] = r
			}
		}
		if !ok1 || !ok2 || !mapsEqual(tm, wantT) || !mapsEqual(cm, wantC) || !tr.IsValid() || !ch.IsValid() {
			return nt, violf("C18/deccoins/Truncate/wrong-result", "%s = %v + %v", desc, tr, ch)
		}
		nt = len(wantT) > 0 && len(wantC) > 0
	case "MulDec", "MulDecTruncate", "QuoDec", "QuoDecTruncate":
		want := map[string]*big.Int{}
		over := false
		isQuo := strings.HasPrefix(e.Op, "Quo")
		mode := "even"
		if strings.HasSuffix(e.Op, "Truncate") {
			mode = "trunc"
		}
		known36 := false
		if isQuo && d.Sign() == 0 {
			res := catch(func() { A.QuoDec(sdk.Dec{Int: new(big.Int)}) })
			if !res.panicked {
				return true, violf("C18/deccoins/"+e.Op+"/no-panic", "%s: division by zero did not panic", desc)
			}
			return true, nil
		}
		for k, v := range ma {
			var x *big.Int
			if isQuo {
				x = divRound(new(big.Int).Mul(v, bigTen18), d, mode)
				if twoStepQuo(v, d, mode).Cmp(x) != 0 {
					known36 = true
				}
			} else {
				x = divRound(new(big.Int).Mul(v, d), bigTen18, mode)
			}
			if x.BitLen() > decBits {
				over = true
			}
			if x.Sign() != 0 {
				want[k] = x
			}
		}
		if known36 {
			return false, nil // C18/dec/quo-36-digit-double-rounding is decided on Dec itself
		}
		var got sdk.DecCoins
		dd := sdk.Dec{Int: new(big.Int).Set(d)}
		res := catch(func() {
			switch e.Op {
			case "MulDec":
				got = A.MulDec(dd)
			case "MulDecTruncate":
				got = A.MulDecTruncate(dd)
			case "QuoDec":
				got = A.QuoDec(dd)
			default:
				got = A.QuoDecTruncate(dd)
			}
		})
		if over {
			if !res.panicked {
				return true, violf("C18/deccoins/"+e.Op+"/out-of-range-result", "%s overflowed silently", desc)
			}
			return true, nil
		}
		if res.panicked {
			return nt, violf("C18/deccoins/"+e.Op+"/spurious-panic", "%s: %v", desc, res.pv)
		}
		// a negative multiplier yields negative amounts: canonical form is only promised for non-negative results
		if v := checkRes(e.Op, got, want, d.Sign() > 0); v != nil {
			return nt, v
		}
		if dd.Int.Cmp(d) != 0 {
			return nt, violf("C18/operand-mutated", "%s mutated the factor", desc)
		}
		nt = len(ma) > 0
	case "Intersect":
		want := map[string]*big.Int{}
		for k, v := range ma {
			w := amt(mb, k)
			m := v
			if w.Cmp(v) < 0 {
				m = w
			}
			if m.Sign() != 0 {
				want[k] = m
			}
		}
		got := A.Intersect(B)
		if v := checkRes("Intersect", got, want, true); v != nil {
			return nt, v
		}
	case "AmountOf":
		got := A.AmountOf(e.Den)
		if got.Int.Cmp(amt(ma, e.Den)) != 0 {
			return true, violf("C18/deccoins/AmountOf", "%s AmountOf(%s) = %s", desc, e.Den, got)
		}
		_, nt = ma[e.Den]
	case "IsEqual":
		same := len(ma) == len(mb)
		for k := range ma {
			if _, ok := mb[k]; !ok {
				same = false
			}
		}
		if len(ma) == len(mb) && !same {
			return false, nil
		}
		var got bool
		res := catch(func() { got = A.IsEqual(B) })
		if res.panicked || got != mapsEqual(ma, mb) {
			return nt, violf("C18/deccoins/IsEqual", "%s = %v panic=%v", desc, got, res.pv)
		}
	default:
		panic("harness: bad deccoins op " + e.Op)
	}
	return nt, unmut()
}

func init() {
	register(&PropDef{
		ID: "C18",
		Rule: "each rapid case is a batch of 1-24 evaluations (type, operation, operands); operands are drawn over the full 255/256/315-bit ranges " +
			"with bias to 0, +-1, +-10^k, 2^k+-d, int64 edges, constructed rounding ties (+-1 unit) and coin sets sharing denominations; " +
			"an evaluation is non-trivial when its exact result is within 2 units of a rounding tie or of the range bound, divides by zero, " +
			"or its coin operands share a denomination; distinctness = hash of (type, op, operands)",
		Gen:  genC18,
		New:  func() interface{} { return &c18Prog{} },
		Exec: execC18,
		Assum: []string{"math/big is the trusted reference", "Int.Quo/QuoRaw, Dec.QuoInt/QuoInt64 are specified as truncating integer division (upstream behaviour)",
			"Int.Mod only asserted for non-negative dividends", "Coins.IsEqual on same-length sets with different denominations is a documented panic and not asserted"},
	})
}
