package props

import (
	"encoding/json"
	"io/ioutil"
	"os"
	"testing"

	"pgregory.net/rapid"
)

func envProp(t *testing.T) *PropDef {
	id := os.Getenv("VERIF_PROP")
	p := registry[id]
	if p == nil {
		t.Skipf("VERIF_PROP=%q: no such property check", id)
	}
	return p
}

func envTier() string {
	if os.Getenv("VERIF_TIER") == "thorough" {
		return "thorough"
	}
	return "quick"
}

// TestProp is the search entry: the driver runs it once per shard with -rapid.seed / -rapid.checks.
func TestProp(t *testing.T) {
	p := envProp(t)
	tier := envTier()
	agg := newAgg(p.ID)
	statsPath := os.Getenv("VERIF_STATS")
	failPath := os.Getenv("VERIF_FAIL")
	curPath := os.Getenv("VERIF_CUR")
	defer func() { agg.flush(statsPath) }()
	firstSig := ""
	rapid.Check(t, func(rt *rapid.T) {
		prog := p.Gen(rt, tier)
		progJSON, err := json.Marshal(prog)
		if err != nil {
			rt.Fatalf("harness: program not serialisable: %v", err)
		}
		c := newCase(tier, true)
		if curPath != "" && p.RecordCur != nil && p.RecordCur(prog) {
			// the process may be killed by the code under test (fatal error, os.Exit, race detector):
			// leave the program where the driver finds it
			writeFail(curPath, p.ID, &Violation{Sig: p.ID + "/process-died", Msg: "the process died while executing this program"}, progJSON)
			agg.flushLight(statsPath)
		}
		v := safeExec(p, prog, c)
		if curPath != "" && p.RecordCur != nil {
			os.Remove(curPath)
		}
		if v == nil {
			agg.add(progJSON, c)
			return
		}
		if firstSig == "" {
			firstSig = v.Sig
			agg.mu.Lock()
			agg.frozen = true
			agg.s.Failed = true
			agg.mu.Unlock()
			agg.flush(statsPath)
		}
		if v.Sig != firstSig {
			// a different failure met while shrinking: not the one being minimised
			agg.mu.Lock()
			agg.s.OtherSigs[v.Sig]++
			agg.mu.Unlock()
			return
		}
		writeFail(failPath, p.ID, v, progJSON)
		rt.Fatalf("%s", v.Error())
	})
}

// TestReplay re-executes a saved program without rapid. VERIF_REPLAY_MODE=finding surfaces known
// findings instead of suppressing them. The outcome is written to VERIF_REPLAY_OUT.
func TestReplay(t *testing.T) {
	p := envProp(t)
	path := os.Getenv("VERIF_REPLAY")
	bz, err := ioutil.ReadFile(path)
	if err != nil {
		t.Fatalf("harness: %v", err)
	}
	var ff failFile
	if err := json.Unmarshal(bz, &ff); err != nil {
		t.Fatalf("harness: bad replay file: %v", err)
	}
	prog := p.New()
	if err := json.Unmarshal(ff.Program, prog); err != nil {
		t.Fatalf("harness: bad program: %v", err)
	}
	c := newCase(envTier(), os.Getenv("VERIF_REPLAY_MODE") != "finding")
	v := safeExec(p, prog, c)
	out := struct {
		Violation *Violation `json:"violation"`
	}{v}
	obz, _ := json.Marshal(&out)
	if op := os.Getenv("VERIF_REPLAY_OUT"); op != "" {
		_ = ioutil.WriteFile(op, obz, 0644)
	}
	if v != nil {
		t.Logf("REPLAY-FAIL %s", v.Error())
	} else {
		t.Logf("REPLAY-PASS")
	}
}

// TestMeta writes the property's rule and assumptions for the evidence file.
func TestMeta(t *testing.T) {
	p := envProp(t)
	bz, _ := json.Marshal(map[string]interface{}{"rule": p.Rule, "assumptions": p.Assum})
	if op := os.Getenv("VERIF_META"); op != "" {
		_ = ioutil.WriteFile(op, bz, 0644)
	}
}
