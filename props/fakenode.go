package props

// Fake Tendermint node for the ante handler: auth.ValidateTransaction asks
// client.NewHTTP(tmNode.Config().RPC.ListenAddress).Tx(hash) whether the tx index already
// contains the transaction. A zero node.Node gets its private config pointed (reflect/unsafe) at a
// JSON-RPC stub on a unix socket owned by this process; the stub answers `tx` from a tx index that
// the chain driver fills with the hashes of all transactions of committed blocks.

import (
	"encoding/base64"
	"encoding/hex"
	"encoding/json"
	"fmt"
	"io/ioutil"
	"net"
	"net/http"
	"os"
	"path/filepath"
	"reflect"
	"sync"
	"unsafe"

	cfg "github.com/tendermint/tendermint/config"
	"github.com/tendermint/tendermint/node"
)

type txIndex struct {
	mtx sync.Mutex
	set map[string]uint32 // raw tx hash -> DeliverTx code (Tendermint indexes failed transactions too)
}

func (ti *txIndex) has(h []byte) bool {
	ti.mtx.Lock()
	defer ti.mtx.Unlock()
	_, ok := ti.set[string(h)]
	return ok
}

func (ti *txIndex) code(h []byte) uint32 {
	ti.mtx.Lock()
	defer ti.mtx.Unlock()
	return ti.set[string(h)]
}

func (ti *txIndex) add(h []byte, code uint32) {
	ti.mtx.Lock()
	ti.set[string(h)] = code
	ti.mtx.Unlock()
}

func (ti *txIndex) remove(h []byte) {
	ti.mtx.Lock()
	delete(ti.set, string(h))
	ti.mtx.Unlock()
}

func (ti *txIndex) reset() {
	ti.mtx.Lock()
	ti.set = map[string]uint32{}
	ti.mtx.Unlock()
}

var (
	stubOnce  sync.Once
	stubAddr  string
	stubIndex = &txIndex{set: map[string]uint32{}}
	stubNode  *node.Node
	stubErr   error
)

// fakeNode returns the process-wide fake node and its tx index (reset it per case).
func fakeNode() (*node.Node, *txIndex) {
	stubOnce.Do(func() {
		dir := os.Getenv("VERIF_WORK")
		if dir == "" {
			dir = os.TempDir()
		}
		// unix socket paths are limited to ~100 bytes
		sock := filepath.Join(dir, fmt.Sprintf("rpc-%d.sock", os.Getpid()))
		if len(sock) > 100 {
			sock = filepath.Join(os.TempDir(), fmt.Sprintf("verif-rpc-%d.sock", os.Getpid()))
		}
		os.Remove(sock)
		ln, err := net.Listen("unix", sock)
		if err != nil {
			stubErr = err
			return
		}
		stubAddr = "unix://" + sock
		srv := &http.Server{Handler: http.HandlerFunc(stubHandler)}
		go srv.Serve(ln)

		n := &node.Node{}
		c := cfg.DefaultConfig()
		c.RPC.ListenAddress = stubAddr
		f := reflect.ValueOf(n).Elem().FieldByName("config")
		reflect.NewAt(f.Type(), unsafe.Pointer(f.UnsafeAddr())).Elem().Set(reflect.ValueOf(c))
		stubNode = n
	})
	if stubErr != nil {
		panic("harness: cannot start the RPC stub: " + stubErr.Error())
	}
	return stubNode, stubIndex
}

func stubHandler(w http.ResponseWriter, r *http.Request) {
	body, _ := ioutil.ReadAll(r.Body)
	var req struct {
		ID     json.RawMessage `json:"id"`
		Method string          `json:"method"`
		Params struct {
			Hash json.RawMessage `json:"hash"`
		} `json:"params"`
	}
	_ = json.Unmarshal(body, &req)
	w.Header().Set("Content-Type", "application/json")
	w.Header().Set("Connection", "close")
	fail := func(msg string) {
		fmt.Fprintf(w, `{"jsonrpc":"2.0","id":%s,"error":{"code":-32603,"message":"Internal error","data":%q}}`, idOr(req.ID), msg)
	}
	if req.Method != "tx" {
		fail("unsupported method")
		return
	}
	var b64 string
	if err := json.Unmarshal(req.Params.Hash, &b64); err != nil {
		fail("bad hash")
		return
	}
	hash, err := base64.StdEncoding.DecodeString(b64)
	if err != nil {
		fail("bad hash encoding")
		return
	}
	if !stubIndex.has(hash) {
		fail(fmt.Sprintf("Tx (%X) not found", hash))
		return
	}
	// the indexed result carries the DeliverTx code, as Tendermint's indexer records it
	txr := "{}"
	if c := stubIndex.code(hash); c != 0 {
		txr = fmt.Sprintf(`{"code":%d,"log":"failed"}`, c)
	}
	fmt.Fprintf(w, `{"jsonrpc":"2.0","id":%s,"result":{"hash":"%s","height":"1","index":0,"tx_result":%s,"tx":""}}`, idOr(req.ID), hex.EncodeToString(hash), txr)
}

func idOr(id json.RawMessage) string {
	if len(id) == 0 {
		return `""`
	}
	return string(id)
}
