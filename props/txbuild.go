package props

// Transaction builder: turns an hTx description into signed StdTx bytes, resolving amounts that are
// relative to the current state, and applying an optional post-signing mutation.

import (
	"bytes"
	"encoding/hex"
	"reflect"

	"github.com/pokt-network/posmint/crypto"
	sdk "github.com/pokt-network/posmint/types"
	authtypes "github.com/pokt-network/posmint/x/auth/types"
	govtypes "github.com/pokt-network/posmint/x/gov/types"
	postypes "github.com/pokt-network/posmint/x/pos/types"
)

type builtTx struct {
	Bytes     []byte
	Msg       sdk.Msg // nil for raw bytes
	Std       authtypes.StdTx
	Signer    sdk.Address // msg.GetSigner()
	SignKey   int         // pool index of the key that signed
	Fee       sdk.Coins
	Required  sdk.Int // required fee for the message at build time
	Amount    sdk.Int
	To        sdk.Address
	Mutated   bool
	Replayed  bool
	Severity  sdk.Dec
	SignerBal sdk.Int
	// how the submission relates to what was signed (known by construction, not by verifying):
	// Constructed = pool[SignKey] signed exactly the content built here; ContentChanged = a signed field
	// (chain id, entropy, fee, message, memo) differs from what was signed; SigChanged = the signature bytes
	// were altered after signing
	signBytes      []byte
	Constructed    bool
	ContentChanged bool
	SigChanged     bool
}

// currentOwnerKey: the pool key whose address the stored access-control list (or the DAO-owner parameter)
// names for this governance message right now.
func (ch *chain) currentOwnerKey(v *chainView, tx *hTx) (int, bool) {
	var owner sdk.Address
	switch tx.Kind {
	case "param", "upgrade":
		var acl govtypes.ACL
		if bz, ok := v.Raw[sdk.ParamsKey.Name()]["gov/acl"]; !ok || simCdc.UnmarshalJSON(bz, &acl) != nil {
			return 0, false
		}
		key := tx.Key
		if tx.Kind == "upgrade" {
			key = "gov/upgrade"
		}
		owner = aclOwner(acl, key)
		if len(owner) == 0 {
			// nobody is named for this key: let the most privileged party, the owner of the list itself, try
			owner = aclOwner(acl, "gov/acl")
		}
	case "dao":
		owner = ch.daoOwner(v)
	default:
		return 0, false
	}
	if len(owner) == 0 {
		return 0, false
	}
	for i := range ch.pool {
		if bytes.Equal(ch.pool[i].Addr, owner) {
			return i, true
		}
	}
	return 0, false
}

// coinsSame compares two fee coin lists field by field (no library arithmetic involved)
func coinsSame(a, b sdk.Coins) bool {
	if len(a) != len(b) {
		return false
	}
	for i := range a {
		if a[i].Denom != b[i].Denom || a[i].Amount.BigInt().Cmp(b[i].Amount.BigInt()) != 0 {
			return false
		}
	}
	return true
}

func (ch *chain) addrOf(i int) sdk.Address {
	if i == 200 {
		return sdk.Address{}
	}
	if i >= 100 {
		return authtypes.NewModuleAddress(simModuleAccounts[mod(i-100, len(simModuleAccounts))])
	}
	return ch.pool[mod(i, len(ch.pool))].Addr
}

// current fee multiplier table, read from the params store
func (ch *chain) feeMultipliers(v *chainView) authtypes.FeeMultipliers {
	var fm authtypes.FeeMultipliers
	if bz, ok := v.Raw[sdk.ParamsKey.Name()]["auth/FeeMultipliers"]; ok {
		_ = simCdc.UnmarshalJSON(bz, &fm)
	}
	return fm
}

func (ch *chain) posParamInt64(v *chainView, key string) int64 {
	var x int64
	if bz, ok := v.Raw[sdk.ParamsKey.Name()]["pos/"+key]; ok {
		_ = simCdc.UnmarshalJSON(bz, &x)
	}
	return x
}

func clampNonNeg(x sdk.Int) sdk.Int {
	if x.IsNegative() {
		return sdk.ZeroInt()
	}
	return x
}

func (ch *chain) buildTx(tx *hTx) *builtTx {
	bt := &builtTx{SignKey: -1, Amount: sdk.ZeroInt(), Required: sdk.ZeroInt(), SignerBal: sdk.ZeroInt()}
	if tx.Replay > 0 && len(ch.committed) > 0 {
		bt.Bytes = ch.committed[len(ch.committed)-1-mod(tx.Replay-1, len(ch.committed))]
		bt.Replayed = true
		var std authtypes.StdTx
		if err := simCdc.UnmarshalBinaryLengthPrefixed(bt.Bytes, &std); err == nil {
			bt.Std, bt.Msg, bt.Fee = std, std.Msg, std.Fee
			if std.Msg != nil {
				// (a structurally mutated message may not be able to name its signer)
				catch(func() { bt.Signer = std.Msg.GetSigner() })
			}
		}
		return bt
	}
	if tx.Kind == "rawmut" {
		// a valid signed send whose encoded bytes are then truncated / bit-flipped / spliced
		inner := *tx
		inner.Kind, inner.Mut, inner.Replay = "send", "", 0
		inner.Amt, inner.Rel = 1, ""
		base := ch.buildTx(&inner)
		b := append([]byte{}, base.Bytes...)
		n := len(b)
		pos := mod(int(tx.Amt), n+1)
		switch tx.Str {
		case "truncate":
			b = b[:pos]
		case "flip":
			if n > 0 {
				b[mod(pos, n)] ^= byte(1 << uint(mod(tx.To, 8)))
			}
		case "splice":
			b = append(append([]byte{}, b[:pos]...), base.Bytes...)
		case "lenprefix":
			if n > 0 {
				b[0] ^= 0x7f
			}
		default:
			b = append(b, byte(tx.To))
		}
		bt.Bytes = b
		bt.Mutated = true
		return bt
	}
	if tx.Kind == "structmut" {
		// a valid signed transaction of a drawn kind with one field dropped / duplicated / emptied / re-typed
		inner := *tx
		kinds := []string{"send", "send", "stake", "stake", "unstake", "unjail", "dao", "dao", "param", "upgrade", "award", "burn"}
		inner.Kind, inner.Mut, inner.Replay = kinds[mod(tx.To, len(kinds))], "", 0
		switch inner.Kind {
		case "send", "award":
			inner.Amt, inner.Rel = 1, ""
		case "stake":
			inner.Amt, inner.Rel = 0, "min"
		case "dao":
			inner.Amt, inner.Rel, inner.Str = 1, "", "dao_transfer"
		case "param":
			inner.Key, inner.Str = "pos/MaxValidators", `"5"`
		case "burn":
			inner.Str = "0.5"
		}
		base := ch.buildTx(&inner)
		level, op := "msg", tx.Str
		if len(op) > 3 && op[:3] == "tx:" {
			level, op = "tx", op[3:]
		}
		b, ok := structMutateTx(base.Bytes, level, op, int(tx.Amt))
		if !ok {
			return base
		}
		bt.Bytes = b
		bt.Mutated = true
		return bt
	}
	if tx.Kind == "raw" {
		b, err := hex.DecodeString(tx.Str)
		if err != nil {
			b = []byte(tx.Str)
		}
		bt.Bytes = b
		return bt
	}
	v := ch.app.view()
	from := mod(tx.From, len(ch.pool))
	if tx.AsOwner {
		if k, ok := ch.currentOwnerKey(v, tx); ok {
			from = k
		}
	}
	fromAddr := ch.pool[from].Addr
	bal := v.coinsOf(fromAddr)
	bt.SignerBal = bal
	minStake := ch.posParamInt64(v, "StakeMinimum")

	// required fee needs the message type; build the message with a provisional amount first
	amount := sdk.NewInt(tx.Amt)
	mk := func(amount sdk.Int) sdk.Msg {
		switch tx.Kind {
		case "send":
			return postypes.MsgSend{FromAddress: fromAddr, ToAddress: ch.addrOf(tx.To), Amount: amount}
		case "stake":
			return postypes.MsgStake{PubKey: ch.pool[from].Pub, Value: amount}
		case "unstake":
			return postypes.MsgBeginUnstake{Address: fromAddr}
		case "unjail":
			return postypes.MsgUnjail{ValidatorAddr: fromAddr}
		case "award":
			return MsgTestAward{From: fromAddr, To: ch.addrOf(tx.To), Amount: amount}
		case "burn":
			sev, err := sdk.NewDecFromStr(tx.Str)
			if err != nil {
				sev = sdk.ZeroDec()
			}
			bt.Severity = sev
			return MsgTestBurn{From: fromAddr, Target: ch.addrOf(tx.To), Severity: sev}
		case "param":
			return govtypes.MsgChangeParam{FromAddress: fromAddr, ParamKey: tx.Key, ParamVal: []byte(tx.Str)}
		case "dao":
			return govtypes.MsgDAOTransfer{FromAddress: fromAddr, ToAddress: ch.addrOf(tx.To), Amount: amount, Action: tx.Str}
		case "upgrade":
			// a plan for a version the running application ("0.0.1") already satisfies may name a height inside the
			// history (the chain walks past it); a plan for a later version would stop the process at its height and
			// is therefore scheduled far in the future
			h := 1000000000 + tx.Amt
			if tx.Str <= "0.0.1" {
				h = tx.Amt % 40
			}
			return govtypes.MsgUpgrade{Address: fromAddr, Upgrade: govtypes.NewUpgrade(h, tx.Str)}
		}
		return postypes.MsgSend{FromAddress: fromAddr, ToAddress: fromAddr, Amount: amount}
	}
	msg := mk(amount)
	required := ch.feeMultipliers(v).GetFee(msg)
	fee := required.Add(sdk.NewInt(tx.Fee))
	if tx.FeeAbs {
		fee = sdk.NewInt(tx.Fee)
	}
	fee = clampNonNeg(fee)
	switch tx.Rel {
	case "bal": // signer balance (+offset), fee not considered
		amount = bal.Add(sdk.NewInt(tx.Amt))
	case "balfee": // balance minus the fee (+offset): the most that can be moved after paying the fee
		amount = bal.Sub(fee).Add(sdk.NewInt(tx.Amt))
	case "min":
		amount = sdk.NewInt(minStake).Add(sdk.NewInt(tx.Amt))
	case "stake":
		if val, ok := v.Vals[hex.EncodeToString(fromAddr)]; ok {
			amount = val.StakedTokens.Add(sdk.NewInt(tx.Amt))
		}
	case "dao":
		amount = v.coinsOf(authtypes.NewModuleAddress(govtypes.DAOAccountName)).Add(sdk.NewInt(tx.Amt))
	}
	if tx.Kind != "dao" && tx.Kind != "send" && tx.Kind != "stake" {
		amount = clampNonNeg(amount)
	}
	msg = mk(amount)
	bt.Msg, bt.Amount, bt.Required, bt.Signer, bt.To = msg, amount, required, msg.GetSigner(), ch.addrOf(tx.To)
	var feeCoins sdk.Coins
	if fee.IsPositive() {
		feeCoins = sdk.NewCoins(sdk.NewCoin(sdk.DefaultStakeDenom, fee))
	}
	if tx.FeeDust > 0 {
		feeCoins = feeCoins.Add(sdk.NewCoins(sdk.NewCoin(simDustDenom, sdk.NewInt(tx.FeeDust))))
	}
	bt.Fee = feeCoins
	signKey := from
	if tx.SignWith >= 0 {
		signKey = mod(tx.SignWith, len(ch.pool))
	}
	bt.SignKey = signKey
	chainID := simChainID
	if tx.Mut == "chainid" {
		chainID = simChainID + "x"
		bt.Mutated = true
	}
	signBytes, err := authtypes.StdSignBytes(chainID, tx.Entropy, feeCoins, msg, tx.Memo)
	if err != nil {
		panic("harness: sign bytes: " + err.Error())
	}
	sig := simSign(ch.pool, signKey, signBytes)
	var pub crypto.PublicKey
	if tx.KeyInSig {
		pub = ch.pool[signKey].Pub
	}
	std := authtypes.NewStdTx(msg, feeCoins, authtypes.StdSignature{PublicKey: pub, Signature: sig}, tx.Memo, tx.Entropy)
	bt.signBytes = signBytes
	ch.mutate(tx, &std, bt, mk)
	bt.Constructed = true
	bt.ContentChanged = chainID != simChainID || std.Entropy != tx.Entropy || std.Memo != tx.Memo || !coinsSame(std.Fee, feeCoins) || !reflect.DeepEqual(std.Msg, msg)
	bt.SigChanged = !bytes.Equal(std.Signature.Signature, sig)
	bt.Std = std
	bz, err := simCdc.MarshalBinaryLengthPrefixed(std)
	if err != nil {
		panic("harness: encode tx: " + err.Error())
	}
	bt.Bytes = bz
	return bt
}

// mutate changes one signed field (or the signature / key) after signing.
func (ch *chain) mutate(tx *hTx, std *authtypes.StdTx, bt *builtTx, mk func(sdk.Int) sdk.Msg) {
	switch tx.Mut {
	case "", "chainid":
		return
	case "amount":
		std.Msg = mk(bt.Amount.Add(sdk.OneInt()))
		bt.Msg, bt.Amount = std.Msg, bt.Amount.Add(sdk.OneInt())
	case "msgfield":
		// another field of the message than the amount: recipient / burn target, parameter value, upgrade version,
		// DAO action (messages that carry nothing but their signer stay as they are)
		oldTo, oldStr := tx.To, tx.Str
		switch tx.Kind {
		case "send", "award", "burn":
			tx.To = oldTo + 1
		case "dao":
			if tx.Amt%2 == 0 {
				tx.To = oldTo + 1
			} else if tx.Str == "dao_transfer" {
				tx.Str = "dao_burn"
			} else {
				tx.Str = "dao_transfer"
			}
		case "param", "upgrade":
			tx.Str = oldStr + " "
		}
		std.Msg = mk(bt.Amount)
		tx.To, tx.Str = oldTo, oldStr
		bt.Msg = std.Msg
	case "fee":
		f := std.Fee.AmountOf(sdk.DefaultStakeDenom).Add(sdk.OneInt())
		std.Fee = sdk.NewCoins(sdk.NewCoin(sdk.DefaultStakeDenom, f))
		bt.Fee = std.Fee
	case "feedown":
		f := std.Fee.AmountOf(sdk.DefaultStakeDenom)
		if f.IsPositive() {
			f = f.Sub(sdk.OneInt())
		}
		if f.IsPositive() {
			std.Fee = sdk.NewCoins(sdk.NewCoin(sdk.DefaultStakeDenom, f))
		} else {
			std.Fee = nil
		}
		bt.Fee = std.Fee
	case "memo":
		std.Memo += "x"
	case "entropy":
		std.Entropy++
	case "sigflip":
		s := append([]byte{}, std.Signature.Signature...)
		if len(s) > 0 {
			s[len(s)/2] ^= 0x01
		}
		std.Signature.Signature = s
	case "sigtrunc":
		s := std.Signature.Signature
		if len(s) > 1 {
			std.Signature.Signature = append([]byte{}, s[:len(s)-1]...)
		}
	case "sigext":
		std.Signature.Signature = append(append([]byte{}, std.Signature.Signature...), 0x00)
	case "sigpartial", "sigshift":
		// a multi-signature that carries fewer signatures than the key has members: the first m (sigpartial) or the
		// last m (sigshift), each genuine - what a half-signed transaction looks like before the other holders sign
		parts := ch.pool[bt.SignKey].Parts
		if len(parts) < 2 {
			return
		}
		m := 1 + int(uint64(tx.Entropy)%uint64(len(parts)-1))
		use := parts[:m]
		if tx.Mut == "sigshift" {
			use = parts[len(parts)-m:]
		}
		ms := crypto.MultiSignature{}
		for _, p := range use {
			ms.Sigs = append(ms.Sigs, simSign(ch.pool, p, bt.signBytes))
		}
		std.Signature.Signature = ms.Marshal()
	case "swapkey": // claim another key in the signature
		other := mod(bt.SignKey+1, 8)
		std.Signature.PublicKey = ch.pool[other].Pub
	default:
		return
	}
	bt.Mutated = true
}
