package props

// C16 — Store wrappers are transparent: prefix isolation, exact gas, faithful trace.
// Differential model: a flat sorted map for the shared parent, a composite prefix, an exact
// (math/big) gas ledger following the documented KVGasConfig charges, and an expected trace.

import (
	"bufio"
	"bytes"
	"encoding/base64"
	"encoding/json"
	"fmt"
	"math/big"
	"strings"

	"github.com/tendermint/iavl"
	dbm "github.com/tendermint/tm-db"
	"pgregory.net/rapid"

	"github.com/pokt-network/posmint/store/dbadapter"
	"github.com/pokt-network/posmint/store/gaskv"
	iavlstore "github.com/pokt-network/posmint/store/iavl"
	"github.com/pokt-network/posmint/store/prefix"
	"github.com/pokt-network/posmint/store/tracekv"
	stypes "github.com/pokt-network/posmint/store/types"
)

type c16Layer struct {
	Kind   string `json:"kind"` // prefix gas trace
	Prefix string `json:"prefix,omitempty"`
}

type c16Op struct {
	Op  string  `json:"op"` // get has set del iter
	K   string  `json:"k,omitempty"`
	V   string  `json:"v,omitempty"`
	S   *string `json:"s,omitempty"`
	E   *string `json:"e,omitempty"`
	Rev bool    `json:"rev,omitempty"`
	N   int     `json:"n,omitempty"` // iterator: number of items to visit before closing (0 = all)
}

type c16Prog struct {
	Mode     string     `json:"mode"` // stack meter
	Base     string     `json:"base,omitempty"`
	Cache    bool       `json:"cache,omitempty"`
	Init     []kvPair   `json:"init,omitempty"`
	Layers   []c16Layer `json:"layers,omitempty"` // bottom-up
	TraceTop bool       `json:"trace_top,omitempty"`
	// gas limit: infinite meter, absolute, or relative to the model's total after LimitAtOp ops (-1 = whole program)
	Infinite   bool     `json:"infinite,omitempty"`
	LimitRel   bool     `json:"limit_rel,omitempty"`
	LimitAbs   uint64   `json:"limit_abs,omitempty"`
	LimitDelta int64    `json:"limit_delta,omitempty"`
	LimitAtOp  int      `json:"limit_at_op,omitempty"`
	Ops        []c16Op  `json:"ops,omitempty"`
	Consume    []uint64 `json:"consume,omitempty"` // meter mode
	// every slice handed to the stores (prefixes, keys, values, bounds) carries this much spare capacity
	Spare int `json:"spare,omitempty"`
}

// ---------------------------------------------------------------------------------------------
// generator

var c16Prefixes = []string{"", "61", "61ff", "ff", "ffff", "00", "6100", "61ffff", "01ff", "0061"}

func genC16(t *rapid.T, tier string) interface{} {
	p := &c16Prog{}
	if rapid.IntRange(0, 7).Draw(t, "meter") == 0 {
		p.Mode = "meter"
		p.Infinite = rapid.IntRange(0, 3).Draw(t, "inf") == 0
		p.LimitAbs = genGasAmount(t, "limit")
		p.Consume = rapid.SliceOfN(rapid.Custom(func(t *rapid.T) uint64 { return genGasAmount(t, "amt") }), 1, 8).Draw(t, "consume")
		return p
	}
	p.Mode = "stack"
	p.Spare = rapid.SampledFrom([]int{0, 0, 1, 4, 16}).Draw(t, "spare")
	p.Base = rapid.SampledFrom([]string{"mem", "mem", "iavl"}).Draw(t, "base")
	p.Cache = rapid.IntRange(0, 2).Draw(t, "cache") == 0
	nl := rapid.IntRange(1, 4).Draw(t, "nlayers")
	hasGas, hasTrace := false, false
	for i := 0; i < nl; i++ {
		kind := rapid.SampledFrom([]string{"prefix", "prefix", "gas", "trace"}).Draw(t, "kind")
		if (kind == "gas" && hasGas) || (kind == "trace" && hasTrace) {
			kind = "prefix"
		}
		l := c16Layer{Kind: kind}
		switch kind {
		case "prefix":
			l.Prefix = rapid.SampledFrom(c16Prefixes).Draw(t, "prefix")
		case "gas":
			hasGas = true
		case "trace":
			hasTrace = true
		}
		p.Layers = append(p.Layers, l)
	}
	p.TraceTop = !hasTrace && rapid.Bool().Draw(t, "tracetop")
	full := c16Composite(p.Layers)
	// parent content: neighbours of the composite prefix plus random keys, half inside the prefix
	seen := map[string]bool{}
	add := func(k []byte, v string) {
		if len(k) == 0 || seen[string(k)] {
			return
		}
		seen[string(k)] = true
		p.Init = append(p.Init, kvPair{K: hx(k), V: v})
	}
	if len(full) > 0 {
		if rapid.Bool().Draw(t, "nb") {
			add(full, "aa")
			add(append(append([]byte{}, full...), 0x00), "ab")
			add(append(append([]byte{}, full...), 0xff), "ac")
			add(full[:len(full)-1], "ad")
			if e := stypes.PrefixEndBytes(full); e != nil {
				add(e, "ae")
				add(append(append([]byte{}, e...), 0x00), "af")
			}
			dec := append([]byte{}, full...)
			if dec[len(dec)-1] > 0 {
				dec[len(dec)-1]--
				add(dec, "b0")
				add(append(dec, 0xff), "b1")
			}
		}
	}
	n := rapid.IntRange(0, 8).Draw(t, "ninit")
	for i := 0; i < n; i++ {
		k := unhex(genKeyHex(t, "ik", 1, 3))
		if rapid.Bool().Draw(t, "inside") {
			k = append(append([]byte{}, full...), k...)
		}
		add(k, genValHex(t, "iv", false))
	}
	// ops
	minK := 1
	if len(full) > 0 {
		minK = 0
	}
	var pool []string
	for _, kv := range p.Init {
		kb := unhex(kv.K)
		if bytes.HasPrefix(kb, full) && len(kb) > len(full)-1+minK {
			pool = append(pool, hx(kb[len(full):]))
		}
	}
	minOps := rapid.SampledFrom([]int{1, 6, 12}).Draw(t, "minops")
	p.Ops = rapid.SliceOfN(rapid.Custom(func(t *rapid.T) c16Op {
		var o c16Op
		o.Op = rapid.SampledFrom([]string{"get", "has", "set", "set", "del", "iter", "iter"}).Draw(t, "op")
		key := func() string {
			if len(pool) > 0 && rapid.Bool().Draw(t, "frompool") {
				return rapid.SampledFrom(pool).Draw(t, "poolkey")
			}
			return genKeyHex(t, "k", minK, 3)
		}
		switch o.Op {
		case "get", "has", "del":
			o.K = key()
		case "set":
			o.K = key()
			o.V = genValHex(t, "v", false)
			if rapid.IntRange(0, 9).Draw(t, "long") == 0 {
				o.V = strings.Repeat("ab", rapid.IntRange(4, 300).Draw(t, "vlen"))
			}
		case "iter":
			o.S, o.E = genBound(t, "s"), genBound(t, "e")
			if rapid.IntRange(0, 2).Draw(t, "full") == 0 {
				o.S, o.E = nil, nil
			}
			o.Rev = rapid.Bool().Draw(t, "rev")
			o.N = rapid.IntRange(0, 4).Draw(t, "n")
		}
		return o
	}), minOps, 30).Draw(t, "ops")
	// gas limit
	switch rapid.IntRange(0, 5).Draw(t, "limitkind") {
	case 0:
		p.Infinite = true
	case 1:
		p.LimitAbs = rapid.SampledFrom([]uint64{0, 1, 29, 30, 999, 1000, 1001, 2000, 1 << 62, 1<<64 - 1}).Draw(t, "limitabs")
	default:
		p.LimitRel = true
		p.LimitAtOp = rapid.IntRange(-1, len(p.Ops)-1).Draw(t, "limitat")
		p.LimitDelta = int64(rapid.SampledFrom([]int{-31, -2, -1, 0, 0, 1, 2, 1000000}).Draw(t, "limitdelta"))
	}
	return p
}

func genGasAmount(t *rapid.T, label string) uint64 {
	switch rapid.IntRange(0, 3).Draw(t, label+".shape") {
	case 0:
		return uint64(rapid.IntRange(0, 5).Draw(t, label+".small"))
	case 1:
		return ^uint64(0) - uint64(rapid.IntRange(0, 5).Draw(t, label+".top"))
	case 2:
		return 1<<63 + uint64(rapid.IntRange(-3, 3).Draw(t, label+".mid"))
	default:
		return rapid.Uint64().Draw(t, label+".any")
	}
}

// composite prefix seen by the user: the lowest prefix layer is outermost
func c16Composite(layers []c16Layer) []byte {
	var full []byte
	for _, l := range layers {
		if l.Kind == "prefix" {
			full = append(full, unhex(l.Prefix)...)
		}
	}
	return full
}

// ---------------------------------------------------------------------------------------------
// gas ledger (exact)

type gasLedger struct {
	total    *big.Int
	limit    uint64
	infinite bool
	// outcome of the current operation
	oog, overflow bool
}

var maxU64 = new(big.Int).SetUint64(^uint64(0))

// charge returns false when the charge must panic; later charges of the op are then not applied
func (g *gasLedger) charge(amt uint64) bool {
	if g.oog || g.overflow {
		return false
	}
	g.total.Add(g.total, new(big.Int).SetUint64(amt))
	if g.total.Cmp(maxU64) > 0 {
		g.overflow = true
		return false
	}
	if !g.infinite && g.total.Uint64() > g.limit {
		g.oog = true
		return false
	}
	return true
}

type c16GasPanic struct {
	oog, overflow bool
	other         interface{}
}

func catchGas(f func()) (gp *c16GasPanic) {
	defer func() {
		if r := recover(); r != nil {
			gp = &c16GasPanic{}
			switch r.(type) {
			case stypes.ErrorOutOfGas:
				gp.oog = true
			case stypes.ErrorGasOverflow:
				gp.overflow = true
			default:
				gp.other = r
			}
		}
	}()
	f()
	return nil
}

// ---------------------------------------------------------------------------------------------
// executor

type c16Line struct {
	Operation string                 `json:"operation"`
	Key       string                 `json:"key"`
	Value     string                 `json:"value"`
	Metadata  map[string]interface{} `json:"metadata"`
}

func execC16(prog interface{}, c *Case) *Violation {
	p := prog.(*c16Prog)
	if p.Mode == "meter" {
		return execC16Meter(p, c)
	}
	gcfg := stypes.KVGasConfig()
	full := c16Composite(p.Layers)

	// model run first (pure) to resolve a relative gas limit
	limit := p.LimitAbs
	if p.LimitRel && !p.Infinite {
		tot := c16ModelTotal(p, full, gcfg)
		v := new(big.Int).Add(tot, big.NewInt(p.LimitDelta))
		if v.Sign() < 0 {
			v.SetInt64(0)
		}
		if v.Cmp(maxU64) > 0 {
			v.Set(maxU64)
		}
		limit = v.Uint64()
	}

	// build the real stack
	var base stypes.KVStore
	if p.Base == "iavl" {
		base = iavlstore.UnsafeNewStore(iavl.NewMutableTree(dbm.NewMemDB(), 100), 10, 10)
	} else {
		base = dbadapter.Store{DB: dbm.NewMemDB()}
	}
	model := flatKV{}
	for _, kv := range p.Init {
		base.Set(unhex(kv.K), unhex(kv.V))
		model[string(unhex(kv.K))] = unhex(kv.V)
	}
	initial := model.clone()
	var logical stypes.KVStore = base
	if p.Cache {
		logical = base.CacheWrap().(stypes.KVStore)
	}
	var meter stypes.GasMeter
	hasGas := false
	var midTrace, topTrace bytes.Buffer
	traceCtx := stypes.TraceContext{"blockHeight": 7}
	var midTracePrefix []byte // prefix applied above the mid trace layer
	cur := logical
	for i, l := range p.Layers {
		switch l.Kind {
		case "prefix":
			cur = prefix.NewStore(cur, withSpare(unhex(l.Prefix), p.Spare))
		case "gas":
			if p.Infinite {
				meter = stypes.NewInfiniteGasMeter()
			} else {
				meter = stypes.NewGasMeter(limit)
			}
			hasGas = true
			cur = gaskv.NewStore(cur, meter, gcfg)
		case "trace":
			cur = tracekv.NewStore(cur, &midTrace, traceCtx)
			midTracePrefix = c16Composite(p.Layers[i+1:])
		}
	}
	if p.TraceTop {
		cur = tracekv.NewStore(cur, &topTrace, traceCtx)
	}
	user := cur
	led := &gasLedger{total: new(big.Int), limit: limit, infinite: p.Infinite}
	var wantTop, wantMid []c16Line
	b64 := base64.StdEncoding.EncodeToString
	midKey := func(k []byte) string { return b64(append(append([]byte{}, midTracePrefix...), k...)) }

	c.Labelf("base=%s cache=%v gas=%v tracetop=%v", p.Base, p.Cache, hasGas, p.TraceTop)
	ffCarry, exactLimit, oogSeen := false, false, false

	checkParent := func(idx int) *Violation {
		got := dumpStore(logical)
		if !flatEqual(got, model) {
			return violf("C16/parent-content", "after op %d the shared parent holds %v, model %v (composite prefix %x)", idx, got, model, full)
		}
		if p.Cache {
			if got := dumpStore(base); !flatEqual(got, initial) {
				return violf("C16/parent-content", "after op %d the base below the cache changed before Write: %v", idx, got)
			}
		}
		return nil
	}

	afterOOG := 0
	for idx := range p.Ops {
		o := &p.Ops[idx]
		led.oog, led.overflow = false, false
		var gp *c16GasPanic
		var opViol *Violation
		switch o.Op {
		case "get":
			k := withSpare(unhex(o.K), p.Spare)
			fk := string(append(append([]byte{}, full...), k...))
			want, ok := model[fk]
			if hasGas {
				if led.charge(gcfg.ReadCostFlat) {
					led.charge(gcfg.ReadCostPerByte * uint64(len(want)))
				}
			}
			var got []byte
			gp = catchGas(func() { got = user.Get(k) })
			if gp == nil {
				if (got == nil) != !ok || !bytes.Equal(got, want) {
					opViol = violf("C16/result/get", "op %d Get(%x) under prefix %x = %x, model %x (present %v)", idx, k, full, got, want, ok)
				}
				wantTop = append(wantTop, c16Line{"read", b64(k), b64(want), nil})
			}
			if gp == nil {
				wantMid = append(wantMid, c16Line{"read", midKey(k), b64(want), nil})
			}
		case "has":
			k := withSpare(unhex(o.K), p.Spare)
			fk := string(append(append([]byte{}, full...), k...))
			_, ok := model[fk]
			if hasGas {
				led.charge(gcfg.HasCost)
			}
			var got bool
			gp = catchGas(func() { got = user.Has(k) })
			if gp == nil && got != ok {
				opViol = violf("C16/result/has", "op %d Has(%x) under prefix %x = %v, model %v", idx, k, full, got, ok)
			}
		case "set":
			k, v := withSpare(unhex(o.K), p.Spare), withSpare(unhex(o.V), p.Spare)
			fk := string(append(append([]byte{}, full...), k...))
			if hasGas {
				if led.charge(gcfg.WriteCostFlat) {
					led.charge(gcfg.WriteCostPerByte * uint64(len(v)))
				}
			}
			gp = catchGas(func() { user.Set(k, v) })
			if gp == nil {
				model[fk] = v
				wantTop = append(wantTop, c16Line{"write", b64(k), b64(v), nil})
				wantMid = append(wantMid, c16Line{"write", midKey(k), b64(v), nil})
			}
		case "del":
			k := withSpare(unhex(o.K), p.Spare)
			fk := string(append(append([]byte{}, full...), k...))
			if hasGas {
				led.charge(gcfg.DeleteCost)
			}
			gp = catchGas(func() { user.Delete(k) })
			if gp == nil {
				delete(model, fk)
				wantTop = append(wantTop, c16Line{"delete", b64(k), "", nil})
				wantMid = append(wantMid, c16Line{"delete", midKey(k), "", nil})
			}
		case "iter":
			start, end := withSpare(optBytes(o.S), p.Spare), withSpare(optBytes(o.E), p.Spare)
			// model: keys with the composite prefix, stripped, inside [start,end)
			sub := flatKV{}
			for k, v := range model {
				if bytes.HasPrefix([]byte(k), full) {
					sub[k[len(full):]] = v
				}
			}
			want := sub.rangeKeys(start, end, !o.Rev)
			if end == nil && len(full) > 0 {
				if pe := stypes.PrefixEndBytes(full); pe == nil || len(pe) < len(full) {
					ffCarry = true
				}
			}
			visit := len(want)
			if o.N > 0 && o.N < visit {
				visit = o.N
			}
			var gotK, gotV [][]byte
			extra := false
			gp = catchGas(func() {
				var it stypes.Iterator
				if o.Rev {
					it = user.ReverseIterator(start, end)
				} else {
					it = user.Iterator(start, end)
				}
				defer it.Close()
				for n := 0; it.Valid(); it.Next() {
					if n == visit {
						if visit == len(want) {
							extra = true
						}
						break
					}
					gotK = append(gotK, it.Key())
					gotV = append(gotV, it.Value())
					n++
				}
			})
			// gas: creation charges the first item if valid; every Next charges the item it leaves
			if hasGas {
				seek := func(i int) bool {
					if !led.charge(gcfg.ReadCostPerByte * uint64(len(sub[want[i]]))) {
						return false
					}
					return led.charge(gcfg.IterNextCostFlat)
				}
				if len(want) > 0 && seek(0) {
					// Next is called after each visited item; after the last visited item the loop calls
					// Next once more only if it was not cut short by `visit`
					nexts := visit
					if visit < len(want) {
						nexts = visit // loop: item visit-1 -> Next -> Valid -> break at n==visit
					}
					for i := 0; i < nexts; i++ {
						if !seek(i) {
							break
						}
					}
				}
			}
			if gp == nil {
				if extra || len(gotK) != visit {
					opViol = violf("C16/result/iterator", "op %d iterator[%x,%x) rev=%v under prefix %x yielded %d items (extra=%v), model %s", idx, start, end, o.Rev, full, len(gotK), extra, hexKeys(want))
				}
				for i := 0; opViol == nil && i < visit; i++ {
					if string(gotK[i]) != want[i] || !bytes.Equal(gotV[i], sub[want[i]]) {
						opViol = violf("C16/result/iterator", "op %d iterator[%x,%x) rev=%v under prefix %x item %d = (%x,%x), model order %s", idx, start, end, o.Rev, full, i, gotK[i], gotV[i], hexKeys(want))
					}
				}
				for i := 0; i < visit; i++ {
					wantTop = append(wantTop, c16Line{"iterKey", b64(unhexS(want[i])), "", nil}, c16Line{"iterValue", "", b64(sub[want[i]]), nil})
				}
			}
		default:
			panic("harness: bad op " + o.Op)
		}
		if opViol != nil {
			return opViol
		}
		// panic decision
		if gp != nil && gp.other != nil {
			return violf("C16/unexpected-panic", "op %d %s panicked: %v", idx, o.Op, gp.other)
		}
		wantPanic := led.oog || led.overflow
		if (gp != nil) != wantPanic || (gp != nil && (gp.oog != led.oog || gp.overflow != led.overflow)) {
			return violf("C16/gas/panic-point", "op %d %s: model says oog=%v overflow=%v (total %s, limit %d, infinite %v) but the store panicked=%v (oog=%v overflow=%v)",
				idx, o.Op, led.oog, led.overflow, led.total, limit, p.Infinite, gp != nil, gp != nil && gp.oog, gp != nil && gp.overflow)
		}
		if hasGas && !led.overflow {
			if got := meter.GasConsumed(); new(big.Int).SetUint64(got).Cmp(led.total) != 0 {
				return violf("C16/gas/consumed", "after op %d %s GasConsumed = %d, documented charges sum to %s", idx, o.Op, got, led.total)
			}
			if !p.Infinite && led.total.IsUint64() && led.total.Uint64() == limit {
				exactLimit = true
			}
		}
		if wantPanic {
			oogSeen = true
			if led.oog {
				if !meter.IsPastLimit() || !meter.IsOutOfGas() || meter.GasConsumedToLimit() != limit {
					return violf("C16/gas/meter-state", "after out-of-gas: IsPastLimit=%v IsOutOfGas=%v ToLimit=%d limit=%d", meter.IsPastLimit(), meter.IsOutOfGas(), meter.GasConsumedToLimit(), limit)
				}
			}
			// the refused operation must not have written anything (the model was not updated)
			if v := checkParent(idx); v != nil {
				return v
			}
			if led.overflow {
				break // the counter's value after an overflow is not specified
			}
			// an exhausted meter stays exhausted: the program goes on and every further charge must be refused too
			afterOOG++
			continue
		}
		if v := checkParent(idx); v != nil {
			return v
		}
	}
	if afterOOG > 1 {
		c.Label("operations-after-out-of-gas")
	}
	if !oogSeen {
		// trace: the top trace records every operation in order; the mid trace every read/write/delete
		if p.TraceTop {
			got, err := parseTrace(topTrace.Bytes())
			if err != nil {
				return violf("C16/trace/format", "top trace is not JSON lines: %v", err)
			}
			if v := compareTrace("top", got, wantTop, traceCtx, false); v != nil {
				return v
			}
		}
		if midTrace.Len() > 0 || len(wantMid) > 0 {
			hasMid := false
			for _, l := range p.Layers {
				if l.Kind == "trace" {
					hasMid = true
				}
			}
			if hasMid {
				got, err := parseTrace(midTrace.Bytes())
				if err != nil {
					return violf("C16/trace/format", "trace is not JSON lines: %v", err)
				}
				if v := compareTrace("mid", got, wantMid, traceCtx, true); v != nil {
					return v
				}
			}
		}
		if p.Cache {
			logical.(stypes.CacheKVStore).Write()
			if got := dumpStore(base); !flatEqual(got, model) {
				return violf("C16/parent-content", "after the final Write the base holds %v, model %v", got, model)
			}
		}
	}
	if ffCarry {
		c.Label("iter-end-by-ff-carry")
	}
	if exactLimit {
		c.Label("ended-exactly-at-limit")
	}
	if oogSeen {
		c.Label("gas-panic")
	}
	if ffCarry || exactLimit {
		c.NonTrivial()
	}
	return nil
}

func unhexS(raw string) []byte { return []byte(raw) }

// pure model of the gas total after the first LimitAtOp+1 ops (or all)
func c16ModelTotal(p *c16Prog, full []byte, g stypes.GasConfig) *big.Int {
	hasGas := false
	for _, l := range p.Layers {
		if l.Kind == "gas" {
			hasGas = true
		}
	}
	tot := new(big.Int)
	if !hasGas {
		return tot
	}
	model := flatKV{}
	for _, kv := range p.Init {
		model[string(unhex(kv.K))] = unhex(kv.V)
	}
	add := func(x uint64) { tot.Add(tot, new(big.Int).SetUint64(x)) }
	for idx := range p.Ops {
		if p.LimitAtOp >= 0 && idx > p.LimitAtOp {
			break
		}
		o := &p.Ops[idx]
		fk := string(append(append([]byte{}, full...), unhex(o.K)...))
		switch o.Op {
		case "get":
			add(g.ReadCostFlat + g.ReadCostPerByte*uint64(len(model[fk])))
		case "has":
			add(g.HasCost)
		case "set":
			add(g.WriteCostFlat + g.WriteCostPerByte*uint64(len(unhex(o.V))))
			model[fk] = unhex(o.V)
		case "del":
			add(g.DeleteCost)
			delete(model, fk)
		case "iter":
			sub := flatKV{}
			for k, v := range model {
				if bytes.HasPrefix([]byte(k), full) {
					sub[k[len(full):]] = v
				}
			}
			want := sub.rangeKeys(optBytes(o.S), optBytes(o.E), !o.Rev)
			visit := len(want)
			if o.N > 0 && o.N < visit {
				visit = o.N
			}
			if len(want) > 0 {
				add(g.ReadCostPerByte*uint64(len(sub[want[0]])) + g.IterNextCostFlat)
				for i := 0; i < visit; i++ {
					add(g.ReadCostPerByte*uint64(len(sub[want[i]])) + g.IterNextCostFlat)
				}
			}
		}
	}
	return tot
}

func parseTrace(bz []byte) ([]c16Line, error) {
	var out []c16Line
	sc := bufio.NewScanner(bytes.NewReader(bz))
	sc.Buffer(make([]byte, 1<<20), 1<<20)
	for sc.Scan() {
		var l c16Line
		if err := json.Unmarshal(sc.Bytes(), &l); err != nil {
			return nil, fmt.Errorf("%v in %q", err, sc.Text())
		}
		out = append(out, l)
	}
	return out, nil
}

func compareTrace(which string, got, want []c16Line, ctx stypes.TraceContext, dropIter bool) *Violation {
	if dropIter {
		var f []c16Line
		for _, l := range got {
			if l.Operation != "iterKey" && l.Operation != "iterValue" {
				f = append(f, l)
			}
		}
		got = f
	}
	show := func(ls []c16Line) string {
		s := ""
		for _, l := range ls {
			k, _ := base64.StdEncoding.DecodeString(l.Key)
			v, _ := base64.StdEncoding.DecodeString(l.Value)
			s += fmt.Sprintf("%s(%x,%x) ", l.Operation, k, v)
		}
		return s
	}
	if len(got) != len(want) {
		return violf("C16/trace/lines", "%s trace has %d lines, expected %d:\n got  %s\n want %s", which, len(got), len(want), show(got), show(want))
	}
	for i := range got {
		if got[i].Operation != want[i].Operation || got[i].Key != want[i].Key || got[i].Value != want[i].Value {
			return violf("C16/trace/lines", "%s trace line %d differs:\n got  %s\n want %s", which, i, show(got), show(want))
		}
		if fmt.Sprint(got[i].Metadata["blockHeight"]) != fmt.Sprint(ctx["blockHeight"]) {
			return violf("C16/trace/metadata", "%s trace line %d metadata %v", which, i, got[i].Metadata)
		}
	}
	return nil
}

func execC16Meter(p *c16Prog, c *Case) *Violation {
	var m stypes.GasMeter
	if p.Infinite {
		m = stypes.NewInfiniteGasMeter()
	} else {
		m = stypes.NewGasMeter(p.LimitAbs)
	}
	led := &gasLedger{total: new(big.Int), limit: p.LimitAbs, infinite: p.Infinite}
	c.Labelf("meter infinite=%v", p.Infinite)
	nt := false
	for i, amt := range p.Consume {
		led.oog = false // an exhausted meter keeps counting: the next charge is judged on the running total again
		led.charge(amt)
		gp := catchGas(func() { m.ConsumeGas(amt, "x") })
		if gp != nil && gp.other != nil {
			return violf("C16/unexpected-panic", "ConsumeGas panicked with %v", gp.other)
		}
		if (gp != nil) != (led.oog || led.overflow) || (gp != nil && (gp.oog != led.oog || gp.overflow != led.overflow)) {
			return violf("C16/gas/panic-point", "ConsumeGas #%d (%d): exact total %s limit %d infinite %v: model oog=%v overflow=%v, meter panicked=%v (oog=%v overflow=%v), GasConsumed=%d",
				i, amt, led.total, p.LimitAbs, p.Infinite, led.oog, led.overflow, gp != nil, gp != nil && gp.oog, gp != nil && gp.overflow, m.GasConsumed())
		}
		if led.overflow {
			nt = true
			break
		}
		if new(big.Int).SetUint64(m.GasConsumed()).Cmp(led.total) != 0 {
			return violf("C16/gas/consumed", "after ConsumeGas #%d GasConsumed=%d exact %s", i, m.GasConsumed(), led.total)
		}
		if !p.Infinite {
			t := led.total.Uint64()
			toLimit := t
			if t > p.LimitAbs {
				toLimit = p.LimitAbs
			}
			if m.IsPastLimit() != (t > p.LimitAbs) || m.IsOutOfGas() != (t >= p.LimitAbs) || m.GasConsumedToLimit() != toLimit || m.Limit() != p.LimitAbs {
				return violf("C16/gas/meter-state", "total %d limit %d: IsPastLimit=%v IsOutOfGas=%v ToLimit=%d", t, p.LimitAbs, m.IsPastLimit(), m.IsOutOfGas(), m.GasConsumedToLimit())
			}
			if t == p.LimitAbs {
				nt = true
			}
		} else if m.IsPastLimit() || m.IsOutOfGas() || m.GasConsumedToLimit() != led.total.Uint64() {
			return violf("C16/gas/meter-state", "infinite meter reports a limit")
		}
		if led.oog {
			nt = true
		}
	}
	if nt {
		c.NonTrivial()
	}
	return nil
}

func init() {
	register(&PropDef{
		ID: "C16",
		Rule: "each case is either a stack of 1-4 prefix/gas/trace wrappers (optionally over a cache wrap and under a top-level trace) over a MemDB or IAVL parent " +
			"pre-filled with neighbours of the composite prefix (prefix-1, prefix+1, prefix||00, prefix||ff, shorter, PrefixEnd) and a program of get/has/set/del/" +
			"(partially) drained iterators - every prefix, key, value and bound slice carrying 0-16 bytes of spare poisoned capacity - with a gas limit that is infinite, absolute, or the model's own total after k operations +-delta; or a direct ConsumeGas " +
			"sequence with amounts near 2^64. Non-trivial = an iteration whose range end comes from an 0xFF carry of the prefix, or a run whose exact gas total " +
			"equals the limit, or a meter sequence that ends in out-of-gas/overflow/exactly at the limit; distinctness = hash of the program",
		Gen:  genC16,
		New:  func() interface{} { return &c16Prog{} },
		Exec: execC16,
		Assum: []string{"gas is charged as documented in store/gaskv (flat then per byte; iterator creation and every Next charge the current item if valid)",
			"trace lines are compared exactly only for a trace wrapper on top of the stack; for one inside the stack iterator lines are ignored",
			"state after a gas panic is not asserted (except the meter's own accessors)", "Has and iterator creation/Next are documented as untraced"},
	})
}
