package props

// C07 — Slashing burns exactly the stated fraction and never more than the stake.
// Reference arithmetic (math/big) applied in BeginBlock order: queued burns (address order), then
// downtime slashes in vote order, then double-sign evidence in request order.

import (
	"encoding/hex"
	"fmt"
	"math/big"
	"sort"

	"pgregory.net/rapid"

	sdk "github.com/pokt-network/posmint/types"
	authtypes "github.com/pokt-network/posmint/x/auth/types"
	postypes "github.com/pokt-network/posmint/x/pos/types"
)

type c07Oracle struct {
	c             *Case
	pendingAwards sdk.Int
	awardTo       map[string]sdk.Int
	nontrivial    bool
	aborted       bool
	// burn requests other modules made since the last BeginBlock, as the harness's own handler recorded them
	// (address -> summed severity, scaled by 10^18); the stored burn queue is not consulted
	queued map[string]*big.Int
}

type c07Val struct {
	exists     bool
	status     sdk.StakeStatus
	jailed     bool
	stake      *big.Int
	tombstoned bool
}

// exact slash amount: min(trunc(power * 10^6 * f), stake)
func slashAmount(power int64, f sdk.Dec, stake *big.Int) (*big.Int, bool) {
	if power < 0 {
		power = 0
	}
	num := new(big.Int).Mul(big.NewInt(power), bigTen6)
	num.Mul(num, f.Int) // f is scaled by 10^18
	amt := divRound(num, bigTen18, "trunc")
	truncated := new(big.Int).Mod(num, bigTen18).Sign() != 0
	if amt.Cmp(stake) > 0 {
		amt = new(big.Int).Set(stake)
	}
	if amt.Sign() < 0 {
		amt = new(big.Int)
	}
	return amt, truncated
}

func (ch *chain) posDec(v *chainView, key string) sdk.Dec {
	var d sdk.Dec
	if bz, ok := v.Raw[sdk.ParamsKey.Name()]["pos/"+key]; ok {
		_ = simCdc.UnmarshalJSON(bz, &d)
	}
	if d.Int == nil {
		d = sdk.ZeroDec()
	}
	return d
}

func (o *c07Oracle) after(ch *chain, ci *callInfo) *Violation {
	where := fmt.Sprintf("%s at height %d (block %d)", ci.Kind, ci.Height, ci.BlockIx)
	if ci.Panic != nil {
		if ci.Kind == "begin" {
			sig := "C07/beginblock-panics: " + panicClass(ci.Panic)
			if o.c.Known(sig) {
				o.aborted = true
				return nil
			}
			return violf(sig, "BeginBlock at height %d did not complete: %v\nevidence: %+v\nqueued burns: %v", ci.Height, firstLines(fmt.Sprint(ci.Panic), 6), ci.Req.ByzantineValidators, ci.Before.Burns)
		}
		o.aborted = true
		return nil
	}
	if ci.Kind == "tx" && ci.Deliver.Code == 0 && ci.Built != nil {
		if m, ok := ci.Built.Msg.(MsgTestAward); ok {
			o.pendingAwards = o.pendingAwards.Add(m.Amount)
			k := hex.EncodeToString(m.To)
			if cur, ok := o.awardTo[k]; ok {
				o.awardTo[k] = cur.Add(m.Amount)
			} else {
				o.awardTo[k] = m.Amount
			}
		}
	}
	if ci.Kind == "tx" || ci.Kind == "end" {
		// the handler's log of this block so far (reset by the harness when the next block begins)
		o.queued = map[string]*big.Int{}
		for _, b := range ci.Burns {
			k := hex.EncodeToString(b.Target)
			if o.queued[k] == nil {
				o.queued[k] = new(big.Int)
			}
			o.queued[k].Add(o.queued[k], b.Severity.Int)
		}
	}
	if ci.Kind == "tx" && ci.Built != nil && ci.Before != nil {
		if m, ok := ci.Built.Msg.(MsgTestBurn); ok && ci.Deliver.Code != 0 {
			// a foreign module's burn request for a stored validator must be accepted (it is applied at the next BeginBlock)
			feeAddr := authtypes.NewModuleAddress(authtypes.FeeCollectorName)
			antePassed := ci.After.coinsOf(feeAddr).GT(ci.Before.coinsOf(feeAddr))
			if _, exists := ci.Before.Vals[hex.EncodeToString(m.Target)]; exists && antePassed && !m.Severity.IsNegative() {
				return violf("C07/burn-request-fails", "%s: Keeper.BurnValidator(%s, %s) for a stored validator failed: code %d %s", where, m.Target, m.Severity, ci.Deliver.Code, firstLines(ci.Deliver.Log, 4))
			}
		}
	}
	if ci.Kind != "begin" {
		return nil
	}
	before, after := ci.Before, ci.After
	minStake := big.NewInt(ch.posParamInt64(before, "StakeMinimum"))
	fDS, fDT := ch.posDec(before, "SlashFractionDoubleSign"), ch.posDec(before, "SlashFractionDowntime")
	var maxAge int64
	if bz, ok := before.Raw[sdk.ParamsKey.Name()]["pos/MaxEvidenceAge"]; ok {
		_ = simCdc.UnmarshalJSON(bz, &maxAge)
	}

	// model state
	m := map[string]*c07Val{}
	for a, val := range before.Vals {
		m[a] = &c07Val{exists: true, status: val.Status, jailed: val.Jailed, stake: val.StakedTokens.BigInt()}
	}
	for a, si := range before.Sign {
		if mv, ok := m[a]; ok {
			mv.tombstoned = si.Tombstoned
		}
	}
	slashCount := map[string]int{}
	burned := new(big.Int)
	crossedMin, truncatedBurn := false, false
	slash := func(addr string, power int64, f sdk.Dec) {
		mv := m[addr]
		if mv == nil || !mv.exists || mv.status == sdk.Unstaked {
			return // unknown or unstaked: nothing burns
		}
		amt, tr := slashAmount(power, f, mv.stake)
		if amt.Sign() > 0 {
			slashCount[addr]++
			if tr && amt.Cmp(mv.stake) < 0 {
				truncatedBurn = true
			}
		}
		mv.stake.Sub(mv.stake, amt)
		burned.Add(burned, amt)
		// "falls below the minimum": a slash that removed something and left less than the minimum. A zero-amount
		// slash removes nothing, so nothing falls (posmint's slash() returns before the check in that case) - this
		// matters only after governance raised the minimum above an existing stake.
		if amt.Sign() > 0 && mv.stake.Cmp(minStake) < 0 {
			// below the minimum: force-unstaked with the remainder burned
			burned.Add(burned, mv.stake)
			mv.stake = new(big.Int)
			mv.status = sdk.Unstaked
			crossedMin = true
		}
	}
	// 1. queued burns in address order, with the validator's consensus power at that moment
	var burnAddrs []string
	for a := range o.queued {
		burnAddrs = append(burnAddrs, a)
	}
	sort.Strings(burnAddrs)
	for _, a := range burnAddrs {
		mv := m[a]
		if mv == nil {
			continue
		}
		power := int64(0)
		if mv.status == sdk.Staked {
			power = new(big.Int).Quo(mv.stake, bigTen6).Int64()
		}
		slash(a, power, sdk.Dec{Int: o.queued[a]})
	}
	o.queued = map[string]*big.Int{}
	// 2. downtime slashes (the block's events tell which validators crossed the threshold; C08 decides when)
	downtime := map[string]bool{}
	for _, ev := range ci.Begin.Events {
		if ev.Type != postypes.EventTypeSlash {
			continue
		}
		reason, addr := "", ""
		for _, at := range ev.Attributes {
			if string(at.Key) == postypes.AttributeKeyReason {
				reason = string(at.Value)
			}
			if string(at.Key) == postypes.AttributeKeyAddress {
				addr = string(at.Value)
			}
		}
		if reason == postypes.AttributeValueMissingSignature {
			downtime[addr] = true
		}
	}
	for _, vote := range ci.Req.LastCommitInfo.Votes {
		a := hex.EncodeToString(vote.Validator.Address)
		if downtime[a] {
			slash(a, vote.Validator.Power, fDT)
			if mv := m[a]; mv != nil {
				mv.jailed = true
			}
		}
	}
	// 3. double-sign evidence in request order
	for _, ev := range ci.Req.ByzantineValidators {
		a := hex.EncodeToString(ev.Validator.Address)
		mv := m[a]
		age := ci.Time.Sub(ev.Time)
		if mv == nil || !mv.exists || mv.status == sdk.Unstaked || mv.tombstoned || int64(age) > maxAge {
			continue // unknown / unstaked / already convicted / outside the window: burns nothing
		}
		// confirmed: the whole remaining stake is burned, jailed and tombstoned
		if mv.stake.Sign() > 0 {
			slashCount[a]++
		}
		burned.Add(burned, mv.stake)
		mv.stake = new(big.Int)
		mv.status = sdk.Unstaked
		mv.jailed = true
		mv.tombstoned = true
		_ = fDS
	}

	// compare
	for a, mv := range m {
		got, ok := after.Vals[a]
		if !ok {
			return violf("C07/validator-record-vanished", "%s: validator %s disappeared during BeginBlock", where, a)
		}
		if got.StakedTokens.BigInt().Cmp(mv.stake) != 0 {
			return violf("C07/stake-after-slash", "%s: validator %s stake %s -> %s, the statement's arithmetic gives %s (min stake %s, fractions ds=%s dt=%s, queued burn %v, downtime=%v)\nevidence %+v\nrecord before: status=%v jailed=%v; after: status=%v jailed=%v",
				where, a, before.Vals[a].StakedTokens, got.StakedTokens, mv.stake, minStake, fDS, fDT, before.Burns[a], downtime[a], ci.Req.ByzantineValidators,
				before.Vals[a].Status, before.Vals[a].Jailed, got.Status, got.Jailed)
		}
		if (got.Status == sdk.Unstaked) != (mv.status == sdk.Unstaked) {
			return violf("C07/status-after-slash", "%s: validator %s has status %v with stake %s, expected unstaked=%v (min stake %s)", where, a, got.Status, got.StakedTokens, mv.status == sdk.Unstaked, minStake)
		}
		if mv.tombstoned != after.Sign[a].Tombstoned {
			return violf("C07/tombstone", "%s: validator %s tombstoned=%v, expected %v", where, a, after.Sign[a].Tombstoned, mv.tombstoned)
		}
		if mv.tombstoned && !before.Sign[a].Tombstoned && !got.Jailed { // a conviction of this block (permanence is C09's subject)
			return violf("C07/tombstone", "%s: validator %s convicted of double signing but not jailed", where, a)
		}
	}
	poolAddr := authtypes.NewModuleAddress(postypes.StakedPoolName)
	poolDelta := after.coinsOf(poolAddr).Sub(before.coinsOf(poolAddr))
	wantPool := new(big.Int).Neg(burned)
	if aw, ok := o.awardTo[hex.EncodeToString(poolAddr)]; ok {
		wantPool.Add(wantPool, aw.BigInt()) // an award addressed to the pool account itself
	}
	if poolDelta.BigInt().Cmp(wantPool) != 0 {
		return violf("C07/pool-after-slash", "%s: staked pool changed by %s, burns sum to %s (awards to the pool address: %v)", where, poolDelta, burned, o.awardTo[hex.EncodeToString(poolAddr)])
	}
	supplyDelta := after.supplyOf().Sub(before.supplyOf())
	wantSupply := new(big.Int).Sub(o.pendingAwards.BigInt(), burned)
	if supplyDelta.BigInt().Cmp(wantSupply) != 0 {
		return violf("C07/supply-after-slash", "%s: supply changed by %s, expected awards %s - burns %s", where, supplyDelta, o.pendingAwards, burned)
	}
	// nobody else's balance changes because of slashing: the only other movements of a BeginBlock are the
	// fee hand-over (fee collector -> pos module -> proposer) and award mints
	feeAddr := hex.EncodeToString(authtypes.NewModuleAddress(authtypes.FeeCollectorName))
	posAddr := hex.EncodeToString(authtypes.NewModuleAddress(postypes.ModuleName))
	propAddr := before.Proposer
	for a, coins := range before.Accounts {
		if a == feeAddr || a == posAddr || a == propAddr || a == hex.EncodeToString(poolAddr) {
			continue
		}
		want := coins.AmountOf(sdk.DefaultStakeDenom)
		if aw, ok := o.awardTo[a]; ok {
			want = want.Add(aw)
		}
		if got := after.Accounts[a].AmountOf(sdk.DefaultStakeDenom); !got.Equal(want) {
			return violf("C07/bystander-balance", "%s: account %s changed from %s to %s (awards %v)", where, a, coins, after.Accounts[a], o.awardTo[a])
		}
	}
	o.pendingAwards, o.awardTo = sdk.ZeroInt(), map[string]sdk.Int{}
	multi := false
	for _, n := range slashCount {
		if n >= 2 {
			multi = true
		}
	}
	if truncatedBurn {
		o.c.Label("slash-with-truncation")
	}
	if crossedMin {
		o.c.Label("slash-crossed-minimum")
	}
	if multi {
		o.c.Label("several-slashes-of-one-validator-in-a-block")
	}
	if burned.Sign() > 0 {
		o.c.Label("block-with-burn")
	}
	if truncatedBurn || crossedMin || multi {
		o.nontrivial = true
	}
	return nil
}

var c07Profile = &histProfile{ScriptGov: []string{"raisemin", "lowermin", "lowermax"}, ScriptTemplates: slashStateTemplates, Scripts: true, Batches: true, OwnerBias: 3, MaxBlocks: 16, MinBlocksOf: []int{2, 6, 10}, Evidence: 2, Missed: 1, Restart: 0, MaxTxs: 4,
	TxKinds: []string{"burn", "burn", "burn", "stake", "unstake", "unjail", "award", "send", "param"}, Windows: []int64{10, 10, 12}}

func genC07(t *rapid.T, tier string) interface{} {
	pr := *c07Profile
	if tier == "thorough" {
		pr.MaxBlocks = 40
	}
	return genHistory(t, &pr)
}

func execC07(prog interface{}, c *Case) *Violation {
	p := prog.(*hProg)
	ch, v := newChain(p, c)
	if v != nil || ch == nil {
		return v
	}
	o := &c07Oracle{c: c, pendingAwards: sdk.ZeroInt(), awardTo: map[string]sdk.Int{}, queued: map[string]*big.Int{}}
	if v := ch.run(o); v != nil {
		return v
	}
	if o.aborted {
		c.Label("aborted-by-panic")
	}
	if o.nontrivial {
		c.NonTrivial()
	}
	return nil
}

func init() {
	register(&PropDef{
		ID: "C07",
		Rule: "chain histories biased to slashing: burns requested through Keeper.BurnValidator (severities 0..2 incl. 10^-18 and 1/3), missed votes in every block with a 10-12 block window, " +
			"double-sign evidence in every second block (known/unknown validators, ages around MaxEvidenceAge, reported power equal/larger/smaller/zero), stake/unstake/unjail in between, stakes " +
			"around the minimum and non-multiples of 10^6; at every BeginBlock the per-validator stake, status, tombstone, staked-pool, supply and bystander balances are compared with an exact " +
			"(math/big) sequential model of the statement. Non-trivial = a burn strictly inside (0, stake) with non-zero truncation, or a slash that crosses the minimum, or a second slash of the " +
			"same validator in one block; distinctness = hash of the program",
		Gen:       genC07,
		New:       func() interface{} { return &hProg{} },
		Exec:      execC07,
		RecordCur: func(interface{}) bool { return true },
		Assum: []string{"the block's slash events identify which validators were slashed for downtime (C08 decides when that must happen)", "a queued burn is applied with the validator's consensus power at that BeginBlock",
			"a slash whose amount is zero does not trigger the below-minimum rule"},
	})
}
