package props

// Sorted-map reference model for KV stores with an overlay stack, and shared generators for keys,
// values and iterator bounds. Written from the KVStore contract (store/types/store.go), not from
// the cachekv code.

import (
	"bytes"
	"encoding/hex"
	"fmt"
	"sort"

	"pgregory.net/rapid"

	stypes "github.com/pokt-network/posmint/store/types"
)

type kvPair struct {
	K string `json:"k"` // hex
	V string `json:"v"` // hex
}

func unhex(s string) []byte {
	b, err := hex.DecodeString(s)
	if err != nil {
		panic("harness: bad hex " + s)
	}
	if b == nil {
		b = []byte{}
	}
	return b
}

func optBytes(p *string) []byte {
	if p == nil {
		return nil
	}
	return unhex(*p)
}

// flat model: key (raw string) -> value
type flatKV map[string][]byte

func (m flatKV) clone() flatKV {
	o := flatKV{}
	for k, v := range m {
		o[k] = v
	}
	return o
}

func (m flatKV) sortedKeys() []string {
	ks := make([]string, 0, len(m))
	for k := range m {
		ks = append(ks, k)
	}
	sort.Strings(ks)
	return ks
}

func inDomain(key string, start, end []byte) bool {
	if start != nil && bytes.Compare([]byte(key), start) < 0 {
		return false
	}
	if end != nil && bytes.Compare([]byte(key), end) >= 0 {
		return false
	}
	return true
}

// rangeKeys lists the keys of m inside [start,end) in iteration order.
func (m flatKV) rangeKeys(start, end []byte, ascending bool) []string {
	var ks []string
	for _, k := range m.sortedKeys() {
		if inDomain(k, start, end) {
			ks = append(ks, k)
		}
	}
	if !ascending {
		for i, j := 0, len(ks)-1; i < j; i, j = i+1, j-1 {
			ks[i], ks[j] = ks[j], ks[i]
		}
	}
	return ks
}

func (m flatKV) String() string {
	s := "{"
	for _, k := range m.sortedKeys() {
		s += fmt.Sprintf("%x=%x ", k, m[k])
	}
	return s + "}"
}

// overlay level: sets and tombstones
type overlayKV struct {
	set map[string][]byte
	del map[string]bool
}

func newOverlay() *overlayKV { return &overlayKV{set: map[string][]byte{}, del: map[string]bool{}} }

func (o *overlayKV) put(k string, v []byte) { o.set[k] = v; delete(o.del, k) }
func (o *overlayKV) remove(k string)        { delete(o.set, k); o.del[k] = true }
func (o *overlayKV) clean() bool            { return len(o.set) == 0 && len(o.del) == 0 }

func applyOverlay(base flatKV, o *overlayKV) flatKV {
	out := base.clone()
	for k := range o.del {
		delete(out, k)
	}
	for k, v := range o.set {
		out[k] = v
	}
	return out
}

// stackKV: base content + overlays (ov[i] belongs to wrapper level i+1)
type stackKV struct {
	base flatKV
	ov   []*overlayKV
}

// view returns the content visible at level l (0 = base).
func (s *stackKV) view(l int) flatKV {
	v := s.base.clone()
	for i := 0; i < l; i++ {
		v = applyOverlay(v, s.ov[i])
	}
	return v
}

func (s *stackKV) depth() int { return len(s.ov) }

// dumpStore reads a store completely through an ascending iterator.
func dumpStore(st stypes.KVStore) flatKV {
	out := flatKV{}
	it := st.Iterator(nil, nil)
	defer it.Close()
	for ; it.Valid(); it.Next() {
		out[string(it.Key())] = append([]byte{}, it.Value()...)
	}
	return out
}

func flatEqual(a, b flatKV) bool {
	if len(a) != len(b) {
		return false
	}
	for k, v := range a {
		w, ok := b[k]
		if !ok || !bytes.Equal(v, w) {
			return false
		}
	}
	return true
}

// ---------------------------------------------------------------------------------------------
// generators

var kvAlphabet = []byte{0x00, 0x01, 0x61, 0xFF}

func genKeyHex(t *rapid.T, label string, minLen, maxLen int) string {
	n := rapid.IntRange(minLen, maxLen).Draw(t, label+".len")
	b := make([]byte, n)
	for i := range b {
		b[i] = rapid.SampledFrom(kvAlphabet).Draw(t, label+".b")
	}
	return hex.EncodeToString(b)
}

func genValHex(t *rapid.T, label string, allowEmpty bool) string {
	min := 1
	if allowEmpty {
		min = 0
	}
	n := rapid.IntRange(min, 3).Draw(t, label+".len")
	b := make([]byte, n)
	for i := range b {
		b[i] = byte(rapid.IntRange(0, 255).Draw(t, label+".b"))
	}
	return hex.EncodeToString(b)
}

// genBound: nil, a key-shaped value (existing or between keys, since the alphabet is tiny), or a
// key extended by one byte.
func genBound(t *rapid.T, label string) *string {
	switch rapid.IntRange(0, 3).Draw(t, label+".kind") {
	case 0:
		return nil
	case 1:
		s := genKeyHex(t, label, 1, 3) + "00"
		return &s
	default:
		s := genKeyHex(t, label, 1, 3)
		return &s
	}
}

func hx(b []byte) string { return hex.EncodeToString(b) }

// withSpare returns b in a buffer that has `spare` poisoned bytes of capacity behind it - what a key
// built with append(), sliced out of a larger buffer or converted from a string looks like. Code
// that appends to a caller's slice without copying writes into that memory.
func withSpare(b []byte, spare int) []byte {
	if b == nil || spare <= 0 {
		return b
	}
	buf := make([]byte, len(b)+spare)
	for i := range buf {
		buf[i] = 0xEE
	}
	copy(buf, b)
	return buf[:len(b)]
}
