package props

// C10 — Rewards: fees go to the proposer, awards are minted exactly once.

import (
	"encoding/hex"
	"fmt"
	"sort"

	"pgregory.net/rapid"

	sdk "github.com/pokt-network/posmint/types"
	authtypes "github.com/pokt-network/posmint/x/auth/types"
	postypes "github.com/pokt-network/posmint/x/pos/types"
)

type c10Oracle struct {
	c         *Case
	counts    map[string]int
	awardTo   map[string]sdk.Int // queued since the last BeginBlock (recorded by the harness when the tx was accepted)
	nt        bool
	feeBlocks int
	aborted   bool
	// the proposer named by the header of the previous block, remembered by the oracle (the stored record is
	// checked against it, not used as the expectation)
	prevProposer string
	havePrev     bool
}

func (o *c10Oracle) after(ch *chain, ci *callInfo) *Violation {
	if ci.Panic != nil {
		o.aborted = true
		o.c.Label("panic:" + ci.Kind + ":" + panicClass(ci.Panic))
		return nil
	}
	if ci.Kind == "tx" && ci.Deliver.Code == 0 && ci.Built != nil {
		if m, ok := ci.Built.Msg.(MsgTestAward); ok {
			k := hex.EncodeToString(m.To)
			o.counts[k]++
			if cur, ok := o.awardTo[k]; ok {
				o.awardTo[k] = cur.Add(m.Amount)
			} else {
				o.awardTo[k] = m.Amount
			}
		}
	}
	if ci.Kind != "begin" {
		// "exactly once": outside BeginBlock no fee leaves the collector and no queued award is paid or dropped
		if ci.Before != nil && ci.After != nil && (ci.Kind == "tx" || ci.Kind == "end" || ci.Kind == "commit") {
			fa := authtypes.NewModuleAddress(authtypes.FeeCollectorName)
			if ci.After.coinsOf(fa).LT(ci.Before.coinsOf(fa)) {
				return violf("C10/fees-left-the-collector-outside-beginblock", "%s at height %d (block %d tx %d): the fee collector fell from %s to %s", ci.Kind, ci.Height, ci.BlockIx, ci.TxIx, ci.Before.coinsOf(fa), ci.After.coinsOf(fa))
			}
			for a, q := range ci.Before.Awards {
				if got, ok := ci.After.Awards[a]; !ok || got.LT(q) {
					return violf("C10/award-queue-shrank-outside-beginblock", "%s at height %d (block %d tx %d): the award queued for %s went from %s to %v", ci.Kind, ci.Height, ci.BlockIx, ci.TxIx, a, q, ci.After.Awards[a])
				}
			}
		}
		return nil
	}
	before, after := ci.Before, ci.After
	where := fmt.Sprintf("BeginBlock at height %d (block %d)", ci.Height, ci.BlockIx)
	feeAddr := hex.EncodeToString(authtypes.NewModuleAddress(authtypes.FeeCollectorName))
	posAddr := hex.EncodeToString(authtypes.NewModuleAddress(postypes.ModuleName))
	poolAddr := hex.EncodeToString(authtypes.NewModuleAddress(postypes.StakedPoolName))
	amt := func(v *chainView, a string) sdk.Int { return v.Accounts[a].AmountOf(sdk.DefaultStakeDenom) }

	want := map[string]sdk.Int{} // expected balance deltas
	add := func(a string, x sdk.Int) {
		if cur, ok := want[a]; ok {
			want[a] = cur.Add(x)
		} else {
			want[a] = x
		}
	}
	fees := amt(before, feeAddr)
	prevProposer := o.prevProposer
	if !o.havePrev {
		prevProposer = before.Proposer // first observed block (nothing is paid at height 1)
	}
	defer func() {
		o.prevProposer, o.havePrev = hex.EncodeToString(ci.Req.Header.ProposerAddress), true
	}()
	if ci.Height > 1 {
		// all fees collected while executing the previous block go to its proposer, or stay in the pos module account
		add(feeAddr, fees.Neg())
		if _, isVal := before.Vals[prevProposer]; isVal && (before.HasProp || o.havePrev) {
			add(prevProposer, fees)
			o.c.Label("fees-to-proposer")
		} else {
			add(posAddr, fees)
			o.c.Label("fees-stay-in-pos-module")
		}
		if fees.IsPositive() {
			o.feeBlocks++
		}
	}
	totalAwards := sdk.ZeroInt()
	multi := false
	for a, x := range o.awardTo {
		add(a, x)
		totalAwards = totalAwards.Add(x)
	}
	// burns only touch the staked pool
	burned := totalStake(before).Sub(totalStake(after))
	add(poolAddr, burned.Neg())

	addrs := map[string]bool{}
	for a := range before.Accounts {
		addrs[a] = true
	}
	for a := range after.Accounts {
		addrs[a] = true
	}
	var sorted []string
	for a := range addrs {
		sorted = append(sorted, a)
	}
	sort.Strings(sorted)
	for _, a := range sorted {
		w := sdk.ZeroInt()
		if x, ok := want[a]; ok {
			w = x
		}
		got := amt(after, a).Sub(amt(before, a))
		if !got.Equal(w) {
			sig := "C10/balance-delta"
			switch a {
			case feeAddr:
				sig = "C10/fee-collector-not-emptied"
			case posAddr:
				sig = "C10/pos-module-account"
			case poolAddr:
				sig = "C10/staked-pool-changed-by-awards"
			case prevProposer:
				sig = "C10/proposer-reward"
			}
			if _, isAward := o.awardTo[a]; isAward && a != prevProposer {
				sig = "C10/award-amount"
			}
			return violf(sig, "%s: account %s changed by %s, expected %s (fees of the previous block %s, previous proposer %s known=%v, queued awards %v, burned %s)",
				where, a, got, w, fees, prevProposer, before.Vals[prevProposer].Address != nil, o.awardTo, burned)
		}
	}
	if d := after.supplyOf().Sub(before.supplyOf()); !d.Equal(totalAwards.Sub(burned)) {
		return violf("C10/supply-delta", "%s: supply changed by %s, queued awards sum to %s and %s was burned", where, d, totalAwards, burned)
	}
	if len(after.Awards) != 0 {
		return violf("C10/award-queue-not-emptied", "%s: award queue still holds %v", where, after.Awards)
	}
	if got := after.Proposer; got != hex.EncodeToString(ci.Req.Header.ProposerAddress) {
		return violf("C10/proposer-not-recorded", "%s: recorded proposer %s, header says %x", where, got, ci.Req.Header.ProposerAddress)
	}
	// non-trivial: >= 2 awards to one address and >= 1 fee in the block before
	for _, n := range o.counts {
		if n >= 2 {
			multi = true
		}
	}
	if multi && fees.IsPositive() {
		o.nt = true
	}
	o.awardTo = map[string]sdk.Int{}
	o.counts = map[string]int{}
	return nil
}

var c10Profile = &histProfile{Batches: true, OwnerBias: 3, MaxBlocks: 20, MinBlocksOf: []int{2, 6, 12}, Evidence: 6, Missed: 3, Restart: 8, MaxTxs: 6,
	TxKinds: []string{"award", "award", "award", "award", "send", "send", "stake", "unstake", "burn", "dao", "param", "raw"}}

func execC10(prog interface{}, c *Case) *Violation {
	ch, v := newChain(prog.(*hProg), c)
	if v != nil || ch == nil {
		return v
	}
	o := &c10Oracle{c: c, awardTo: map[string]sdk.Int{}, counts: map[string]int{}}
	if v := ch.run(o); v != nil {
		return v
	}
	if o.aborted {
		c.Label("aborted-by-panic")
	}
	if o.nt {
		c.NonTrivial()
	}
	return nil
}

func init() {
	register(&PropDef{ID: "C10",
		Rule: "chain histories with 0-6 fee-paying transactions per block (accepted, handler-failed, ante-rejected), proposers that are validators / unknown addresses / a non-validator key / validators that " +
			"just matured, 0..n awards per block to the same or different addresses (validators, plain accounts, fresh and module addresses; zero and huge amounts), awards queued over several blocks; " +
			"at every BeginBlock every account's balance delta is compared with the accounting model of the statement (collector emptied, previous proposer or pos module credited once with the full " +
			"fees, each award address credited the sum of its queued awards, pool only changed by burns), plus supply delta, emptied award queue and recorded proposer. Non-trivial = a BeginBlock " +
			"that mints >=2 awards to one address after a block with fees; distinctness = hash of the program",
		Gen: func(t *rapid.T, tier string) interface{} {
			pr := *c10Profile
			if tier == "thorough" {
				pr.MaxBlocks = 50
			}
			return genHistory(t, &pr)
		},
		New: func() interface{} { return &hProg{} }, Exec: execC10, RecordCur: func(interface{}) bool { return true },
		Assum: []string{"ProposerRewardPercentage is not used by the path the statement describes"}})
}
