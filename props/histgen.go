package props

// Generators for chain histories. A profile biases the vocabulary towards what a property needs;
// all state-dependent choices are indices/offsets resolved at execution time.

import (
	"fmt"
	"strings"

	"pgregory.net/rapid"
)

type histProfile struct {
	MaxBlocks       int
	MinBlocksOf     []int
	TxKinds         []string // sampled uniformly (repeat to weight)
	MaxTxs          int
	Evidence        int // 1 in N blocks carries evidence (0 = never)
	Missed          int // 1 in N blocks has missed votes (0 = never)
	Restart         int // 1 in N blocks restarts after commit (0 = never)
	Mutations       []string
	Modes           []string // tx modes
	Queries         bool
	WrongSigner     int // 1 in N txs signed by another key (0 = never)
	ExtraSign       bool
	SmallParams     bool // short unstaking time, small window, small MaxValidators
	Windows         []int64
	MaxVals         []uint64
	FixedMin        bool
	GovHandover     bool       // generate ACL / DAO-owner hand-overs with real pool addresses
	Scripts         bool       // insert a focused per-validator action sequence (one validator, one action per block)
	Batches         bool       // insert blocks in which several validators perform the same action together
	ScriptGov       []string   // governance actions (raisemin lowermin lowermax raisemax) validator and batch scripts may contain, sent by the parameter's current owner
	ScriptTemplates [][]string // when set: the validator script always uses one of these action sequences ("x!" = short time step before x, "burn1" = burn request of 100%)
	HugeBalances    bool       // some accounts hold balances just below 2^63 (sums then cross the int64 range)
	MinSigned       []string   // when set: choices for MinSignedPerWindow
	OwnerBias       int        // N>0: governance messages are sent by the current owner (resolved at execution) in N of N+1 cases
	Anchor          bool       // in half of the histories one genesis validator is never accused, absent, unstaked or burned, so that the set rarely empties
	seed            int
}

var defaultTxKinds = []string{"send", "send", "stake", "stake", "unstake", "unjail", "award", "award", "burn", "param", "dao", "upgrade", "raw", "structmut"}

func genGenesis(t *rapid.T, pr *histProfile) hGenesis {
	g := hGenesis{}
	g.Seed = rapid.IntRange(0, 2).Draw(t, "seed")
	g.StakeMinimum = rapid.SampledFrom([]int64{1000000, 1000000, 2500000}).Draw(t, "stakemin")
	if pr.FixedMin {
		g.StakeMinimum = 1000000
	}
	nv := rapid.IntRange(1, 6).Draw(t, "nvals")
	perm := rapid.Permutation([]int{0, 1, 2, 3, 4, 5, 6, 7}).Draw(t, "valkeys")
	base := g.StakeMinimum + 1 + int64(rapid.IntRange(0, 3).Draw(t, "basepow"))*1000000
	for i := 0; i < nv; i++ {
		var st int64
		switch rapid.IntRange(0, 4).Draw(t, "stakeshape") {
		case 0:
			st = g.StakeMinimum + 1
		case 1:
			st = base // equal powers
		case 2:
			st = base + int64(rapid.IntRange(0, 999999).Draw(t, "dust"))
		case 3:
			st = g.StakeMinimum + int64(rapid.IntRange(1, 3000000).Draw(t, "near"))
		default:
			st = rapid.Int64Range(g.StakeMinimum+1, 50000000).Draw(t, "any")
		}
		g.Validators = append(g.Validators, hGenVal{Key: perm[i], Stake: st})
	}
	for k := 0; k < simPoolSize; k++ {
		var bal int64
		switch rapid.IntRange(0, 5).Draw(t, "balshape") {
		case 0:
			continue // no account at all
		case 1:
			bal = int64(rapid.IntRange(0, 600).Draw(t, "dustbal"))
		case 2:
			bal = g.StakeMinimum + int64(rapid.IntRange(-300, 1000).Draw(t, "nearmin"))
		default:
			bal = rapid.Int64Range(1000000, 1000000000000).Draw(t, "bigbal")
		}
		if pr.HugeBalances && rapid.IntRange(0, 5).Draw(t, "hugebal") == 0 {
			bal = 9223372036854775807 - int64(rapid.IntRange(0, 3000000).Draw(t, "hugegap"))
		}
		g.Accounts = append(g.Accounts, hGenAcc{Key: k, Balance: bal, NoPub: rapid.IntRange(0, 9).Draw(t, "nopub") == 0})
	}
	g.UnstakingSec = rapid.SampledFrom([]int64{0, 1, 60, 3600, 1814400}).Draw(t, "unstaking")
	g.MaxValidators = rapid.SampledFrom([]uint64{1, 2, 3, 5, 100000, 100000}).Draw(t, "maxvals")
	if len(pr.MaxVals) > 0 {
		g.MaxValidators = rapid.SampledFrom(pr.MaxVals).Draw(t, "maxvalsp")
	}
	g.MaxEvidenceSec = rapid.SampledFrom([]int64{60, 120, 3600}).Draw(t, "maxevidence")
	g.Window = int64(rapid.IntRange(10, 40).Draw(t, "window"))
	if len(pr.Windows) > 0 {
		g.Window = rapid.SampledFrom(pr.Windows).Draw(t, "windowp")
	}
	g.MinSigned = rapid.SampledFrom([]string{"0", "0.05", "0.5", "0.5", "0.9", "1"}).Draw(t, "minsigned")
	if len(pr.MinSigned) > 0 {
		g.MinSigned = rapid.SampledFrom(pr.MinSigned).Draw(t, "minsignedp")
	}
	g.JailSec = rapid.SampledFrom([]int64{60, 600}).Draw(t, "jail")
	fr := []string{"0", "0.01", "0.05", "1", "0.000000000000000001", "0.333333333333333333", "0.5", "0.999999999999999999"}
	g.SlashDS = rapid.SampledFrom(fr).Draw(t, "slashds")
	g.SlashDT = rapid.SampledFrom(fr).Draw(t, "slashdt")
	g.MaxMemo = rapid.SampledFrom([]uint64{1, 10, 256}).Draw(t, "maxmemo")
	g.TxSigLimit = uint64(rapid.IntRange(1, 7).Draw(t, "siglimit"))
	g.FeeDefault = rapid.SampledFrom([]int64{1, 1, 0, 2, 1000}).Draw(t, "feedefault")
	if rapid.IntRange(0, 2).Draw(t, "feemulti") == 0 {
		// 1-3 entries for distinct message types (InitGenesis refuses duplicates)
		keys := rapid.Permutation([]string{"send", "stake_validator", "unjail", "change_param", "test_award", "begin_unstaking_validator", "dao_tranfer"}).Draw(t, "fmkeys")
		n := rapid.IntRange(1, 3).Draw(t, "fmn")
		for i := 0; i < n; i++ {
			g.FeeMultis = append(g.FeeMultis, hFeeMulti{Key: keys[i], Mult: rapid.SampledFrom([]int64{0, 2, 3, 100}).Draw(t, "fmmult")})
		}
	}
	no := rapid.IntRange(1, 3).Draw(t, "nowners")
	for i := 0; i < no; i++ {
		g.ACLOwners = append(g.ACLOwners, rapid.IntRange(0, simPoolSize-1).Draw(t, "aclowner"))
	}
	g.DAOOwner = rapid.IntRange(0, simPoolSize-1).Draw(t, "daoowner")
	g.DAOTokens = rapid.SampledFrom([]int64{0, 1, 1000000, 1000000000000}).Draw(t, "daotokens")
	if pr.ExtraSign {
		g.ExtraSigning = rapid.IntRange(0, 8).Draw(t, "extrasign")
	}
	g.KeepRecent = rapid.SampledFrom([]int64{0, 1, 5, 100}).Draw(t, "keeprecent")
	g.KeepEvery = rapid.SampledFrom([]int64{0, 1, 3, 10000}).Draw(t, "keepevery")
	return g
}

func genTx(pr *histProfile) func(t *rapid.T) hTx {
	kinds := pr.TxKinds
	if len(kinds) == 0 {
		kinds = defaultTxKinds
	}
	return func(t *rapid.T) hTx {
		tx := hTx{SignWith: -1}
		tx.Kind = rapid.SampledFrom(kinds).Draw(t, "kind")
		tx.From = rapid.IntRange(0, simPoolSize-1).Draw(t, "from")
		tx.To = rapid.IntRange(0, simPoolSize-1).Draw(t, "to")
		switch rapid.IntRange(0, 15).Draw(t, "tomod") {
		case 0, 1:
			tx.To = 100 + rapid.IntRange(0, 3).Draw(t, "module")
		case 2:
			tx.To = 200 // the empty address: the first element of the address space, and a legal award recipient
		}
		// entropies as clients draw them: mostly of full 63-bit magnitude (beyond what a float64 holds exactly)
		tx.Entropy = rapid.OneOf(rapid.Int64(), rapid.Int64Range(1<<53, 1<<63-1), rapid.Int64Range(-1<<63, -(1<<53))).Draw(t, "entropy")
		tx.KeyInSig = rapid.IntRange(0, 3).Draw(t, "keyinsig") != 0
		switch rapid.IntRange(0, 9).Draw(t, "feeshape") {
		case 0:
			tx.Fee = -1
		case 1:
			tx.Fee = 1
		case 2:
			tx.Fee = int64(rapid.IntRange(2, 100000).Draw(t, "feeextra"))
		case 3:
			tx.Fee, tx.FeeAbs = 0, true
		}
		switch tx.Kind {
		case "send":
			switch rapid.IntRange(0, 6).Draw(t, "amtshape") {
			case 0:
				tx.Rel, tx.Amt = "bal", 0
			case 1:
				tx.Rel, tx.Amt = "balfee", 0
			case 2:
				tx.Rel, tx.Amt = "balfee", 1
			case 3:
				tx.Amt = int64(rapid.IntRange(0, 3).Draw(t, "dust"))
			case 4:
				tx.Rel, tx.Amt = "balfee", -int64(rapid.IntRange(1, 1000).Draw(t, "under"))
			default:
				tx.Amt = rapid.Int64Range(1, 5000000).Draw(t, "amt")
			}
			if rapid.IntRange(0, 9).Draw(t, "self") == 0 {
				tx.To = tx.From
			}
		case "stake":
			tx.From = rapid.IntRange(0, 9).Draw(t, "stakefrom")
			switch rapid.IntRange(0, 5).Draw(t, "stakeshape") {
			case 0:
				tx.Rel, tx.Amt = "min", 0
			case 1:
				tx.Rel, tx.Amt = "min", -1
			case 2:
				tx.Rel, tx.Amt = "balfee", 0
			case 3:
				tx.Rel, tx.Amt = "balfee", 1
			case 4:
				tx.Rel, tx.Amt = "min", int64(rapid.IntRange(1, 3000000).Draw(t, "overmin"))
			default:
				tx.Amt = rapid.Int64Range(1, 20000000).Draw(t, "stakeamt")
			}
		case "unstake", "unjail":
			tx.From = rapid.IntRange(0, 9).Draw(t, "valfrom")
		case "award":
			tx.Amt = rapid.SampledFrom([]int64{0, 1, 999, 1000000, 123456789012}).Draw(t, "award")
		case "burn":
			tx.To = rapid.IntRange(0, 9).Draw(t, "burntarget")
			tx.Str = rapid.SampledFrom([]string{"0", "0.01", "0.1", "0.5", "1", "0.000000000000000001", "0.333333333333333333", "2"}).Draw(t, "severity")
		case "param":
			tx.Key = rapid.SampledFrom(append([]string{"nosuch/Key", "pos/NoSuchKey", "malformed"}, simParamKeys...)).Draw(t, "pkey")
			if pr.GovHandover && rapid.IntRange(0, 4).Draw(t, "aclbias") == 0 {
				tx.Key = "gov/acl"
			}
			tx.Str = genParamValue(t, tx.Key)
			if rapid.IntRange(0, 11).Draw(t, "pkeysuffix") == 0 {
				// a key with a trailing segment: it is no entry of the access-control list, though its first two
				// segments name a parameter
				tx.Key += rapid.SampledFrom([]string{"/x", "/", "/" + tx.Key}).Draw(t, "pkeysuffixtext")
			}
			if pr.GovHandover && (tx.Key == "gov/acl" || tx.Key == "gov/daoOwner") && rapid.IntRange(0, 3).Draw(t, "handover") != 0 {
				pool := simKeyPool(pr.seed)
				if tx.Key == "gov/daoOwner" {
					tx.Str = `"` + pool[rapid.IntRange(0, simPoolSize-1).Draw(t, "newdao")].Addr.String() + `"`
				} else {
					// a complete ACL with owners rotated among a few keys
					base := rapid.IntRange(0, simPoolSize-1).Draw(t, "aclbase")
					step := rapid.IntRange(0, 2).Draw(t, "aclstep")
					// ... complete (half of them), or well-formed but not what a genesis file would be allowed to say: one
					// parameter left without an owner, an entry for a key that is no parameter, a second entry for the
					// same key, an entry with an empty address
					shape := rapid.SampledFrom([]string{"complete", "complete", "complete", "complete", "dropone", "dropone", "unknownkey", "duplicate", "emptyaddr"}).Draw(t, "aclshape")
					victim := rapid.IntRange(0, len(simParamKeys)-1).Draw(t, "aclvictim")
					var entries []string
					for i, k := range simParamKeys {
						e := fmt.Sprintf(`{"acl_key":%q,"address":%q}`, k, pool[(base+i*step)%simPoolSize].Addr.String())
						if i == victim {
							switch shape {
							case "dropone":
								continue
							case "unknownkey":
								entries = append(entries, fmt.Sprintf(`{"acl_key":%q,"address":%q}`, rapid.SampledFrom([]string{"nosuch/Key", "nosuch/Key", "pos/NoSuchKey", "malformed"}).Draw(t, "aclunknown"), pool[base].Addr.String()))
							case "duplicate":
								entries = append(entries, e, fmt.Sprintf(`{"acl_key":%q,"address":%q}`, k, pool[(base+1)%simPoolSize].Addr.String()))
								continue
							case "emptyaddr":
								e = fmt.Sprintf(`{"acl_key":%q,"address":""}`, k)
							}
						}
						entries = append(entries, e)
					}
					tx.Str = `{"type":"gov/non_map_acl","value":[` + strings.Join(entries, ",") + "]}"
				}
			}
		case "dao":
			tx.Str = rapid.SampledFrom([]string{"dao_transfer", "dao_transfer", "dao_burn", "dao_steal"}).Draw(t, "action")
			switch rapid.IntRange(0, 5).Draw(t, "daoamt") {
			case 0:
				tx.Amt = 1
			case 1:
				tx.Rel, tx.Amt = "dao", 0
			case 2:
				tx.Rel, tx.Amt = "dao", 1
			case 3:
				tx.Rel, tx.Amt = "dao", -1
			case 4:
				tx.Amt = -5
			default:
				tx.Amt = rapid.Int64Range(1, 2000000).Draw(t, "daoany")
			}
		case "upgrade":
			tx.Amt = int64(rapid.IntRange(0, 1000).Draw(t, "upheight"))
			tx.Str = rapid.SampledFrom([]string{"0.0.2", "1.0.0", "", "0.0.1", "0.0.1", "0.0.0"}).Draw(t, "upversion")
		case "raw":
			tx.Str = fmt.Sprintf("%x", rapid.SliceOfN(rapid.Byte(), 0, 40).Draw(t, "rawbytes"))
		case "structmut":
			tx.Str = rapid.SampledFrom([]string{"drop", "drop", "drop", "dup", "empty", "empty", "rewire", "swap", "renumber", "tx:drop", "tx:dup", "tx:empty", "tx:rewire"}).Draw(t, "structop")
			tx.Amt = int64(rapid.IntRange(0, 5).Draw(t, "structfield"))
			tx.To = rapid.IntRange(0, 11).Draw(t, "structkind")
		case "rawmut":
			tx.Str = rapid.SampledFrom([]string{"truncate", "flip", "flip", "splice", "lenprefix", "append"}).Draw(t, "rawmutkind")
			tx.Amt = int64(rapid.IntRange(0, 400).Draw(t, "rawmutpos"))
		}
		if pr.OwnerBias > 0 && (tx.Kind == "param" || tx.Kind == "dao" || tx.Kind == "upgrade") {
			tx.AsOwner = rapid.IntRange(0, pr.OwnerBias).Draw(t, "asowner") != 0
		}
		if pr.WrongSigner > 0 && rapid.IntRange(0, pr.WrongSigner-1).Draw(t, "wrongsigner") == 0 {
			tx.SignWith = rapid.IntRange(0, simPoolSize-1).Draw(t, "signwith")
			// the attacker's key travels in the signature, or no key does and the victim's stored key is looked up
			tx.KeyInSig = rapid.IntRange(0, 2).Draw(t, "attackerkeyinsig") != 0
		}
		if len(pr.Mutations) > 0 && rapid.IntRange(0, 2).Draw(t, "mutate") == 0 {
			tx.Mut = rapid.SampledFrom(pr.Mutations).Draw(t, "mut")
		}
		if len(pr.Modes) > 0 {
			tx.Mode = rapid.SampledFrom(pr.Modes).Draw(t, "mode")
		}
		if rapid.IntRange(0, 19).Draw(t, "memo") == 0 {
			tx.Memo = rapid.StringN(1, 12, 300).Draw(t, "memotext")
		}
		if rapid.IntRange(0, 24).Draw(t, "replay") == 0 {
			tx.Replay = rapid.IntRange(1, 5).Draw(t, "replayn")
		}
		return tx
	}
}

func genParamValue(t *rapid.T, key string) string {
	if key == "pos/StakeDenom" {
		// the stake denomination is never changed to another valid denomination: every token amount in
		// the statements is in the stake denomination
		return rapid.SampledFrom([]string{`"upokt"`, "{malformed", `7`}).Draw(t, "pdenom")
	}
	switch rapid.IntRange(0, 5).Draw(t, "pvshape") {
	case 0:
		return "{malformed"
	case 1:
		return `"text"`
	case 2:
		return `{"a":1}`
	}
	switch key {
	case "pos/MaxValidators":
		return fmt.Sprintf(`"%d"`, rapid.SampledFrom([]int{1, 2, 3, 5, 100000}).Draw(t, "pmaxvals"))
	case "pos/StakeMinimum":
		return fmt.Sprintf(`"%d"`, rapid.SampledFrom([]int{1000000, 2000000, 5000000}).Draw(t, "pstakemin"))
	case "pos/SignedBlocksWindow":
		return fmt.Sprintf(`"%d"`, rapid.IntRange(10, 40).Draw(t, "pwindow"))
	case "pos/UnstakingTime", "pos/MaxEvidenceAge", "pos/DowntimeJailDuration":
		return fmt.Sprintf(`"%d"`, rapid.SampledFrom([]int64{0, 1000000000, 60000000000, 3600000000000}).Draw(t, "pdur"))
	case "pos/MinSignedPerWindow", "pos/SlashFractionDoubleSign", "pos/SlashFractionDowntime":
		return fmt.Sprintf(`"%s"`, rapid.SampledFrom([]string{"0.000000000000000000", "0.500000000000000000", "1.000000000000000000", "0.050000000000000000"}).Draw(t, "pdec"))
	case "pos/ProposerRewardPercentage":
		return fmt.Sprintf(`%d`, rapid.IntRange(0, 100).Draw(t, "ppct"))
	case "pos/StakeDenom":
		return `"upokt"`
	case "auth/MaxMemoCharacters", "auth/TxSigLimit":
		return fmt.Sprintf(`"%d"`, rapid.IntRange(1, 300).Draw(t, "pauth"))
	case "auth/FeeMultipliers":
		return fmt.Sprintf(`{"fee_multiplier":[{"key":"send","multiplier":"%d"}],"default":"%d"}`, rapid.IntRange(0, 5).Draw(t, "pfm"), rapid.IntRange(0, 3).Draw(t, "pfd"))
	case "gov/daoOwner":
		return `"` + fmt.Sprintf("%040x", rapid.IntRange(1, 9).Draw(t, "pdao")) + `"`
	case "gov/upgrade":
		return `{"type":"gov/upgrade","value":{"Height":"2000000000","Version":"9.9.9"}}`
	}
	return `"1"`
}

func genBlock(pr *histProfile) func(t *rapid.T) hBlock {
	return func(t *rapid.T) hBlock {
		var b hBlock
		b.DTSec = rapid.SampledFrom([]int64{0, 1, 1, 5, 59, 60, 61, 600, 3600, 86400, 1814400}).Draw(t, "dt")
		if rapid.IntRange(0, 9).Draw(t, "nano") == 0 {
			b.DTNano = rapid.SampledFrom([]int64{-1, 1, 999999999}).Draw(t, "dtnano")
		}
		b.Proposer = rapid.IntRange(-3, 7).Draw(t, "proposer")
		if pr.Missed > 0 && rapid.IntRange(0, pr.Missed-1).Draw(t, "hasmissed") == 0 {
			b.Missed = rapid.SliceOfN(rapid.IntRange(0, 7), 1, 4).Draw(t, "missed")
		}
		if pr.Evidence > 0 && rapid.IntRange(0, pr.Evidence-1).Draw(t, "hasevidence") == 0 {
			b.Evidence = rapid.SliceOfN(rapid.Custom(func(t *rapid.T) hEvidence {
				e := hEvidence{Val: rapid.IntRange(-1, 7).Draw(t, "eval")}
				e.HeightAgo = int64(rapid.IntRange(0, 5).Draw(t, "eheight"))
				e.AgeSec = rapid.SampledFrom([]int64{0, 1, 59, 60, 61, 119, 120, 121, 3600, 3601, 100000}).Draw(t, "eage")
				e.PowerMode = rapid.IntRange(0, 4).Draw(t, "epower")
				return e
			}), 1, 2).Draw(t, "evidence")
		}
		maxTxs := pr.MaxTxs
		if maxTxs == 0 {
			maxTxs = 4
		}
		b.Txs = rapid.SliceOfN(rapid.Custom(genTx(pr)), 0, maxTxs).Draw(t, "txs")
		if pr.Queries && rapid.IntRange(0, 3).Draw(t, "hasq") == 0 {
			b.Queries = rapid.SliceOfN(rapid.Custom(func(t *rapid.T) hQuery {
				if rapid.Bool().Draw(t, "qwellformed") {
					// well-formed custom queries: they get past parameter decoding and read (and page through) state
					q := hQuery{H: int64(rapid.IntRange(0, 6).Draw(t, "qwh"))}
					switch rapid.IntRange(0, 2).Draw(t, "qshape") {
					case 0:
						q.Tmpl = "page"
						q.Path = rapid.SampledFrom([]string{"/custom/pos/validators", "/custom/pos/unstaking_validators", "/custom/pos/staked_validators", "/custom/pos/unstaked_validators", "/custom/pos/signingInfos"}).Draw(t, "qppath")
						q.A, q.B = rapid.IntRange(-1, 3).Draw(t, "qpage"), rapid.SampledFrom([]int{0, 1, 2, 100, -1}).Draw(t, "qlimit")
					case 1:
						q.Tmpl = "addr"
						q.Path = rapid.SampledFrom([]string{"/custom/pos/validator", "/custom/pos/signingInfo", "/custom/pos/account_balance", "/custom/auth/account"}).Draw(t, "qapath")
						q.A = rapid.SampledFrom([]int{0, 1, 2, 3, 7, 9, 13, 100, 101, 102, 103}).Draw(t, "qaddr")
					default:
						q.Path = rapid.SampledFrom([]string{"/custom/pos/stakedPool", "/custom/pos/unstakedPool", "/custom/pos/parameters", "/custom/gov/acl", "/custom/gov/dao", "/custom/gov/daoOwner", "/custom/gov/upgrade"}).Draw(t, "qnpath")
					}
					return q
				}
				return hQuery{Path: rapid.SampledFrom([]string{"/store/pos/key", "/store/auth/key", "/custom/pos/validators", "/custom/pos/params", "/custom/auth/supply", "/custom/gov/acl", "/app/version", "/nosuch"}).Draw(t, "qpath"),
					Data: fmt.Sprintf("%x", rapid.SliceOfN(rapid.Byte(), 0, 24).Draw(t, "qdata")), H: int64(rapid.IntRange(0, 6).Draw(t, "qh"))}
			}), 1, 3).Draw(t, "queries")
		}
		if pr.Restart > 0 && rapid.IntRange(0, pr.Restart-1).Draw(t, "restart") == 0 {
			b.Restart = true
		}
		return b
	}
}

func genHistory(t *rapid.T, pr *histProfile) *hProg {
	p := &hProg{Gen: genGenesis(t, pr)}
	prc := *pr
	prc.seed = p.Gen.Seed
	pr = &prc
	mins := pr.MinBlocksOf
	if len(mins) == 0 {
		mins = []int{1, 6, 12}
	}
	minB := rapid.SampledFrom(mins).Draw(t, "minblocks")
	maxB := pr.MaxBlocks
	if maxB < minB {
		maxB = minB
	}
	p.Blocks = rapid.SliceOfN(rapid.Custom(genBlock(pr)), minB, maxB).Draw(t, "blocks")
	if pr.Scripts && rapid.Bool().Draw(t, "script") {
		at := rapid.IntRange(0, len(p.Blocks)).Draw(t, "scriptat")
		script := genValidatorScript(t, &p.Gen, pr.ScriptTemplates, pr.ScriptGov)
		p.Blocks = append(p.Blocks[:at], append(script, p.Blocks[at:]...)...)
	}
	if pr.Batches && rapid.IntRange(0, 2).Draw(t, "batch") == 0 {
		at := rapid.IntRange(0, len(p.Blocks)).Draw(t, "batchat")
		script := genBatchScript(t, &p.Gen, pr.ScriptGov)
		p.Blocks = append(p.Blocks[:at], append(script, p.Blocks[at:]...)...)
	}
	if pr.Anchor && len(p.Gen.Validators) > 0 && rapid.Bool().Draw(t, "anchor") {
		p.Gen.Anchor = p.Gen.Validators[0].Key + 1
		applyAnchor(p, p.Gen.Validators[0].Key)
	}
	return p
}

// applyAnchor rewrites a history so that validator key `a` keeps its seat: no begin-unstake and no burn
// request names it (they are redirected to the next key); the executor never reports it absent or accused
// (hGenesis.Anchor). Tendermint refuses an update that empties its set, after which nothing more can be
// learnt from a history.
func applyAnchor(p *hProg, a int) {
	other := (a + 1) % 8
	for bi := range p.Blocks {
		b := &p.Blocks[bi]
		for ti := range b.Txs {
			tx := &b.Txs[ti]
			if tx.Kind == "unstake" && tx.From == a {
				tx.From, tx.To = other, other
			}
			if tx.Kind == "burn" && tx.To == a {
				tx.To = other
			}
		}
	}
}

// slashStateTemplates: a slash (burn request, downtime, conviction) meets the validator in every state of its life:
// jailed, unstaking, jailed and unstaking, freshly re-staked - with small burns that leave it above the minimum
var slashStateTemplates = [][]string{
	{"downtime", "burn!", "wait", "unjail", "unstake", "wait"},
	{"downtime", "unstake!", "burn!", "wait", "wait"},
	{"unstake", "burn!", "burn!", "wait", "wait"},
	{"stake", "downtime", "burn!", "burn!", "unjail", "wait"},
	{"burn", "unstake!", "evidence!", "wait", "wait"},
	{"unstake", "wait", "stake!", "burn!", "unstake", "wait"},
	{"downtime", "raisemin!", "burn!", "unjail", "wait"},
}

// scriptGovTx: a parameter change sent by the parameter's current owner, timed by a script: the minimum stake raised
// above / lowered back to what validators hold, the validator cap lowered below / raised above the set's size
func scriptGovTx(t *rapid.T, action string, entropy int64) hTx {
	tx := hTx{Kind: "param", SignWith: -1, KeyInSig: true, Entropy: entropy, AsOwner: true}
	switch action {
	case "raisemin":
		tx.Key, tx.Str = "pos/StakeMinimum", rapid.SampledFrom([]string{`"2000000"`, `"2000000"`, `"5000000"`, `"1000002"`}).Draw(t, "graisemin")
	case "lowermin":
		tx.Key, tx.Str = "pos/StakeMinimum", `"1000000"`
	case "lowermax":
		tx.Key, tx.Str = "pos/MaxValidators", rapid.SampledFrom([]string{`"1"`, `"2"`, `"2"`, `"3"`}).Draw(t, "glowermax")
	case "raisemax":
		tx.Key, tx.Str = "pos/MaxValidators", rapid.SampledFrom([]string{`"5"`, `"100000"`}).Draw(t, "graisemax")
	}
	return tx
}

func isScriptGov(a string) bool {
	return a == "raisemin" || a == "lowermin" || a == "lowermax" || a == "raisemax"
}

// genBatchScript: blocks in which 2-6 validators perform the SAME action together (all begin unstaking,
// all stake, all are burned, all miss / double-sign), in a generated order, followed by time steps around
// the unstaking and jail durations: several validators then share one unstaking-queue entry, mature in
// the same EndBlock, leave or enter the set in the same update. The chosen keys get funded accounts.
func genBatchScript(t *rapid.T, g *hGenesis, gov []string) []hBlock {
	n := rapid.IntRange(2, 6).Draw(t, "bn")
	keys := rapid.Permutation([]int{0, 1, 2, 3, 4, 5, 6, 7}).Draw(t, "bkeys")[:n]
	if len(g.Validators) >= 2 && rapid.IntRange(0, 3).Draw(t, "bgenesis") != 0 {
		// prefer the genesis validators (they are staked already)
		keys = keys[:0]
		for _, v := range g.Validators {
			keys = append(keys, v.Key)
		}
		keys = rapid.Permutation(keys).Draw(t, "bgkeys")
	}
	for _, k := range keys {
		found := false
		for i := range g.Accounts {
			if g.Accounts[i].Key == k {
				found = true
				if g.Accounts[i].Balance < 100000000 {
					g.Accounts[i].Balance = 100000000 + int64(k)
				}
				g.Accounts[i].NoPub = false
			}
		}
		if !found {
			g.Accounts = append(g.Accounts, hGenAcc{Key: k, Balance: 100000000 + int64(k)})
		}
	}
	u := g.UnstakingSec
	steps := []int64{0, 1, 61, u - 1, u, u + 1, g.JailSec + 1}
	actions := rapid.SampledFrom([][]string{
		{"unstake", "wait", "wait"},
		{"stake", "unstake", "wait", "wait"},
		{"unstake", "wait", "stake", "wait"},
		{"burn", "wait", "unstake", "wait"},
		{"evidence", "wait", "stake", "wait"},
		{"missed", "missed", "missed", "unjail", "wait"},
		{"stake", "wait", "burn", "unstake", "wait", "wait"},
	}).Draw(t, "btmpl")
	if len(gov) > 0 && rapid.IntRange(0, 2).Draw(t, "bgov") == 0 {
		// a parameter change lands between (or next to) the group's actions
		at := rapid.IntRange(0, len(actions)).Draw(t, "bgovat")
		actions = append(append(append([]string{}, actions[:at]...), rapid.SampledFrom(gov).Draw(t, "bgovaction")), actions[at:]...)
	}
	var out []hBlock
	for i, a := range actions {
		b := hBlock{DTSec: rapid.SampledFrom(steps).Draw(t, "bdt"), Proposer: rapid.IntRange(0, 3).Draw(t, "bprop")}
		if a == "wait" && rapid.Bool().Draw(t, "bpast") {
			b.DTSec = u + 1
		}
		if b.DTSec < 0 {
			b.DTSec = 0
		}
		order := rapid.Permutation(keys).Draw(t, "border")
		switch a {
		case "wait":
		case "evidence":
			for _, k := range order {
				b.Evidence = append(b.Evidence, hEvidence{Val: k, ByKey: true, HeightAgo: int64(rapid.IntRange(0, 2).Draw(t, "beh"))})
			}
		case "missed":
			b.MissedKeys = append([]int{}, order...)
		case "raisemin", "lowermin", "lowermax", "raisemax":
			b.Txs = append(b.Txs, scriptGovTx(t, a, 9900+int64(i)))
		default:
			for j, k := range order {
				tx := hTx{Kind: a, From: k, To: k, SignWith: -1, KeyInSig: true, Entropy: 9000 + int64(i*10+j)}
				switch a {
				case "stake":
					tx.Rel, tx.Amt = "min", int64(rapid.IntRange(0, 2000000).Draw(t, "bstake"))
				case "burn":
					tx.From = rapid.IntRange(0, 9).Draw(t, "bburner")
					tx.Str = rapid.SampledFrom([]string{"0.01", "0.5", "1"}).Draw(t, "bsev")
				}
				b.Txs = append(b.Txs, tx)
			}
		}
		out = append(out, b)
	}
	return out
}

// genValidatorScript: a sequence of blocks that concentrates on ONE validator key: each block carries one
// action (stake / begin-unstake / unjail / burn request / double-sign evidence against every known
// validator / nothing) and a time step related to the unstaking and jail durations, so that
// interleavings such as unstake -> convicted -> re-stake -> unstake -> first maturity time are reached.
func genValidatorScript(t *rapid.T, g *hGenesis, templates [][]string, gov []string) []hBlock {
	key := rapid.IntRange(0, 7).Draw(t, "skey")
	if len(g.Validators) > 0 && rapid.IntRange(0, 3).Draw(t, "sgenesisval") != 0 {
		key = g.Validators[rapid.IntRange(0, len(g.Validators)-1).Draw(t, "sval")].Key
	}
	// the scripted validator can pay for its transactions
	funded := false
	for i := range g.Accounts {
		if g.Accounts[i].Key == key {
			funded = true
			if g.Accounts[i].Balance < 100000000 {
				g.Accounts[i].Balance = 100000000 + int64(key)
			}
			g.Accounts[i].NoPub = false
		}
	}
	if !funded {
		g.Accounts = append(g.Accounts, hGenAcc{Key: key, Balance: 100000000 + int64(key)})
	}
	u := g.UnstakingSec
	steps := []int64{0, 1, 1, 59, 61, u / 2, u - 1, u, u + 1, g.JailSec - 1, g.JailSec, g.JailSec + 1}
	mkTx := func(kind string, e int64) hTx {
		tx := hTx{Kind: kind, From: key, To: key, SignWith: -1, KeyInSig: true, Entropy: 7000 + e}
		switch kind {
		case "stake":
			tx.Rel, tx.Amt = "min", int64(rapid.IntRange(0, 2000000).Draw(t, "sstake"))
		case "burn":
			tx.From = rapid.IntRange(0, 9).Draw(t, "sburner")
			tx.Str = rapid.SampledFrom([]string{"0.01", "0.01", "0.000001", "0.5", "1", "0"}).Draw(t, "ssev")
		case "burn1":
			tx.Kind = "burn"
			tx.From = rapid.IntRange(0, 9).Draw(t, "sburner1")
			tx.Str = "1"
		}
		return tx
	}
	allEvidence := func() []hEvidence {
		var ev []hEvidence
		for i := 0; i < 8; i++ {
			ev = append(ev, hEvidence{Val: i, HeightAgo: int64(rapid.IntRange(0, 2).Draw(t, "seh")), AgeSec: 0})
		}
		return ev
	}
	var actions []string
	if len(templates) > 0 && rapid.IntRange(0, 3).Draw(t, "ptemplate") != 0 {
		actions = rapid.SampledFrom(templates).Draw(t, "ptmpl")
	} else if rapid.IntRange(0, 3).Draw(t, "template") == 0 {
		actions = rapid.SampledFrom([][]string{
			{"unstake", "evidence", "stake", "unstake", "wait", "wait"},
			{"unstake", "burn", "wait", "wait"},
			{"evidence", "stake", "unjail", "unstake", "wait"},
			{"unstake", "wait", "stake", "unstake", "wait"},
			{"burn", "unstake", "stake", "wait"},
		}).Draw(t, "tmpl")
	} else {
		vocab := []string{"stake", "stake", "stake", "unstake", "unstake", "unstake", "evidence", "evidence", "wait", "wait", "burn", "unjail", "unjail", "downtime"}
		vocab = append(vocab, gov...)
		actions = rapid.SliceOfN(rapid.SampledFrom(vocab), 3, 8).Draw(t, "sactions")
	}
	if len(gov) > 0 && len(templates) == 0 && rapid.IntRange(0, 3).Draw(t, "sgov") == 0 {
		at := rapid.IntRange(0, len(actions)).Draw(t, "sgovat")
		actions = append(append(append([]string{}, actions[:at]...), rapid.SampledFrom(gov).Draw(t, "sgovaction")), actions[at:]...)
	}
	var out []hBlock
	for i, a := range actions {
		b := hBlock{DTSec: rapid.SampledFrom(steps).Draw(t, "sdt"), Proposer: rapid.IntRange(0, 3).Draw(t, "sprop")}
		if strings.HasSuffix(a, "!") {
			a = strings.TrimSuffix(a, "!")
			b.DTSec = rapid.SampledFrom([]int64{0, 1, 5}).Draw(t, "sshort")
		}
		if b.DTSec < 0 {
			b.DTSec = 0
		}
		switch a {
		case "evidence":
			b.Evidence = allEvidence()
		case "wait":
		case "downtime":
			// the validator is absent for a whole signing window (one-second blocks): jailed for downtime unless
			// the threshold is zero
			for j := int64(0); j < g.Window+3 && j < 45; j++ {
				out = append(out, hBlock{DTSec: 1, Proposer: rapid.IntRange(0, 3).Draw(t, "sdprop"), MissedKeys: []int{key}})
			}
			b.DTSec = rapid.SampledFrom([]int64{0, 1, 5}).Draw(t, "sddt")
		default:
			if isScriptGov(a) {
				b.Txs = []hTx{scriptGovTx(t, a, 7900+int64(i))}
			} else {
				b.Txs = []hTx{mkTx(a, int64(i))}
			}
		}
		out = append(out, b)
	}
	return out
}
