package props

// C03 — Only the signer's key authorises a transaction. Decision-table oracle over generated and
// mutated transactions, observed through CheckTx (accept <=> code 0) and DeliverTx (fee movement).

import (
	"bytes"
	"encoding/hex"
	"fmt"
	govtypes "github.com/pokt-network/posmint/x/gov/types"
	postypes "github.com/pokt-network/posmint/x/pos/types"
	"math/big"

	tmtypes "github.com/tendermint/tendermint/types"
	"pgregory.net/rapid"

	"github.com/pokt-network/posmint/crypto"
	sdk "github.com/pokt-network/posmint/types"
	authexported "github.com/pokt-network/posmint/x/auth/exported"
	authtypes "github.com/pokt-network/posmint/x/auth/types"
)

type c03Oracle struct {
	c        *Case
	cells    map[string]int
	forged   int
	pristine int
	aborted  bool
}

type anteDecision struct {
	accept  bool
	reason  string
	fee     sdk.Int
	signer  sdk.Address
	keyAddr sdk.Address
}

// documented signature-depth rule (auth params TxSigLimit)
func sigDepthOK(limit uint64, pk crypto.PublicKeyMultiSig) bool {
	var rec func(count uint64, k crypto.PublicKeyMultiSig) (uint64, bool)
	rec = func(count uint64, k crypto.PublicKeyMultiSig) (uint64, bool) {
		for _, p := range k.Keys() {
			count++
			if sub, ok := p.(crypto.PublicKeyMultiSig); ok {
				var ok2 bool
				count, ok2 = rec(count, sub)
				if !ok2 {
					return count, false
				}
			}
			if count > limit {
				return count, false
			}
		}
		return count, true
	}
	_, ok := rec(1, pk)
	return ok
}

// c03FeeClass: the fee-table name and base fee of a message, keyed by its Go type (not by Msg.Type() / Msg.GetFee(),
// which are part of what is judged). The base amounts are read from the tables the application installs.
func c03FeeClass(msg sdk.Msg) (string, int64) {
	switch msg.(type) {
	case postypes.MsgSend:
		return "send", simPosFees["send"]
	case postypes.MsgStake:
		return "stake_validator", simPosFees["stake_validator"]
	case postypes.MsgBeginUnstake:
		return "begin_unstaking_validator", simPosFees["begin_unstaking_validator"]
	case postypes.MsgUnjail:
		return "unjail", simPosFees["unjail"]
	case govtypes.MsgChangeParam:
		return "change_param", govtypes.GovFeeMap["change_param"]
	case govtypes.MsgDAOTransfer:
		return "dao_tranfer", govtypes.GovFeeMap["dao_tranfer"]
	case govtypes.MsgUpgrade:
		return "upgrade", govtypes.GovFeeMap["upgrade"]
	case MsgTestAward:
		return "test_award", vhookFeeAwd
	case MsgTestBurn:
		return "test_burn", vhookFeeBurn
	}
	return "", 0
}

// anteModel decides from the statement whether the transaction must be accepted by the ante handler.
func (ch *chain) anteModel(before *chainView, txBytes []byte, bt *builtTx) anteDecision {
	d := anteDecision{fee: sdk.ZeroInt()}
	var std authtypes.StdTx
	if len(txBytes) == 0 || simCdc.UnmarshalBinaryLengthPrefixed(txBytes, &std) != nil || std.Msg == nil {
		d.reason = "undecodable"
		return d
	}
	res := catch(func() {
		if err := std.Msg.ValidateBasic(); err != nil {
			d.reason = "msg basic validation: " + err.Error()
		}
	})
	if res.panicked {
		d.reason = "msg basic validation panics"
	}
	if d.reason != "" {
		return d
	}
	if !std.Fee.IsValid() {
		d.reason = "invalid fee"
		return d
	}
	if len(std.Signature.Signature) == 0 {
		d.reason = "empty signature"
		return d
	}
	d.signer = std.Msg.GetSigner()
	d.fee = std.Fee.AmountOf(sdk.DefaultStakeDenom)
	params := sdk.ParamsKey.Name()
	var maxMemo, sigLimit uint64
	_ = simCdc.UnmarshalJSON(before.Raw[params]["auth/MaxMemoCharacters"], &maxMemo)
	_ = simCdc.UnmarshalJSON(before.Raw[params]["auth/TxSigLimit"], &sigLimit)
	if uint64(len(std.Memo)) > maxMemo {
		d.reason = "memo too long"
		return d
	}
	// key: carried in the signature, else the signer's stored key
	var pk crypto.PublicKey
	if std.Signature.PublicKey != nil && len(std.Signature.PublicKey.RawBytes()) != 0 {
		pk = std.Signature.PublicKey
	} else {
		raw, ok := before.Raw[ch.app.keyAuth.Name()][string(append([]byte{0x01}, d.signer...))]
		if !ok {
			d.reason = "no key: signer account not found"
			return d
		}
		var acc authexported.Account
		if simCdc.UnmarshalBinaryBare(raw, &acc) != nil || acc.GetPubKey() == nil {
			d.reason = "no key: signer account has no public key"
			return d
		}
		pk = acc.GetPubKey()
	}
	d.keyAddr = sdk.Address(pk.Address())
	if ch.index.has(tmtypes.Tx(txBytes).Hash()) {
		d.reason = "replay: already in the tx index"
		return d
	}
	// required fee = the message type's base fee x the governance multiplier listed for that type (else the
	// default multiplier), computed here independently of FeeMultipliers.GetFee
	fm := ch.feeMultipliers(before)
	mult := fm.Default
	typeName, base := c03FeeClass(std.Msg)
	for _, e := range fm.FeeMultis {
		if e.Key == typeName {
			mult = e.Multiplier
			break
		}
	}
	required := new(big.Int).Mul(big.NewInt(base), big.NewInt(mult))
	if required.Sign() > 0 && d.fee.BigInt().Cmp(required) < 0 {
		d.reason = fmt.Sprintf("fee %s below the required %s", d.fee, required)
		return d
	}
	if mk, ok := pk.(crypto.PublicKeyMultiSig); ok && !sigDepthOK(sigLimit, mk) {
		d.reason = "too many signatures"
		return d
	}
	if bt != nil && bt.Constructed {
		// decided by construction, without the library's sign bytes or verification: the harness knows which
		// key signed which content and what was changed afterwards
		switch {
		case bt.ContentChanged:
			d.reason = "a signed field (chain id, entropy, fee, message or memo) was changed after signing"
			return d
		case bt.SigChanged:
			d.reason = "the signature bytes were altered after signing"
			return d
		case !bytes.Equal(pk.RawBytes(), ch.pool[bt.SignKey].Pub.RawBytes()):
			d.reason = "the key offered for verification is not the key that signed"
			return d
		}
	} else {
		// byte-level mutants and replays of earlier bytes: nothing is known by construction
		signBytes, err := authtypes.StdSignBytes(simChainID, std.Entropy, std.Fee, std.Msg, std.Memo)
		if err != nil {
			d.reason = "no sign bytes"
			return d
		}
		if !pk.VerifyBytes(signBytes, std.Signature.Signature) {
			d.reason = "signature does not verify over the sign bytes of the delivered content"
			return d
		}
	}
	if hex.EncodeToString(d.keyAddr) != hex.EncodeToString(d.signer) {
		d.reason = fmt.Sprintf("the signing key's address %s is not the signer %s declared by the message", d.keyAddr, d.signer)
		return d
	}
	bal := before.coinsOf(d.signer)
	if _, ok := before.Accounts[hex.EncodeToString(d.signer)]; !ok {
		d.reason = "signer has no account"
		return d
	}
	for _, c := range std.Fee {
		if before.Accounts[hex.EncodeToString(d.signer)].AmountOf(c.Denom).LT(c.Amount) {
			d.reason = fmt.Sprintf("signer balance %s below the fee %s", bal, std.Fee)
			return d
		}
	}
	d.accept = true
	return d
}

func (o *c03Oracle) after(ch *chain, ci *callInfo) *Violation {
	if ci.Panic != nil {
		o.aborted = true
		o.c.Label("panic:" + ci.Kind + ":" + panicClass(ci.Panic))
		return nil
	}
	if ci.Kind != "tx" && ci.Kind != "check" {
		return nil
	}
	before, after := ci.Before, ci.After
	d := ch.anteModel(before, ci.TxBytes, ci.Built)
	where := fmt.Sprintf("%s at height %d (block %d tx %d, kind %s, mutation %q, signed with key %d, key in signature %v)", ci.Kind, ci.Height, ci.BlockIx, ci.TxIx, ci.Tx.Kind, ci.Tx.Mut, ci.Built.SignKey, ci.Tx.KeyInSig)
	feeAddr := authtypes.NewModuleAddress(authtypes.FeeCollectorName)
	cell := fmt.Sprintf("%s/keyinsig=%v/mut=%s", keyKind(ch, ci), ci.Tx.KeyInSig, ci.Tx.Mut)
	o.cells[cell]++
	if ci.Tx.FeeDust > 0 {
		o.c.Label(fmt.Sprintf("fee-names-a-second-denomination/accept=%v", d.accept))
	}
	if ci.Built.Mutated || (ci.Tx.SignWith >= 0 && ci.Tx.SignWith != ci.Tx.From) || ci.Built.Replayed {
		o.forged++
	} else {
		o.pristine++
	}
	if ci.Kind == "check" {
		accepted := ci.Check.Code == 0
		if accepted != d.accept {
			sig := "C03/check-accepts-what-must-be-rejected"
			if d.accept {
				sig = "C03/check-rejects-what-must-be-accepted"
			}
			return violf(sig, "%s: CheckTx code %d (%s); the statement's decision is accept=%v: %s", where, ci.Check.Code, firstLines(ci.Check.Log, 2), d.accept, d.reason)
		}
		if diff := rawDiff(before, after); diff != "" {
			return violf("C03/checktx-changed-state", "%s: CheckTx changed the state: %s", where, diff)
		}
		return nil
	}
	// DeliverTx
	collectorDelta := after.coinsOf(feeAddr).Sub(before.coinsOf(feeAddr))
	if !d.accept {
		if ci.Deliver.Code == 0 {
			return violf("C03/deliver-accepts-what-must-be-rejected", "%s: DeliverTx code 0; the statement's decision is reject: %s", where, d.reason)
		}
		if diff := rawDiff(before, after); diff != "" {
			return violf("C03/rejected-tx-changed-state", "%s: rejected (%s) but the state changed: %s", where, d.reason, diff)
		}
		return nil
	}
	// accepted by the ante handler: the fee moves from the signer's own balance into the fee collector
	signerIsCollector := hex.EncodeToString(d.signer) == hex.EncodeToString(feeAddr)
	if !signerIsCollector && !collectorDelta.Equal(d.fee) && !c03CollectorTouched(ci, feeAddr) {
		return violf("C03/fee-not-collected", "%s: the transaction must pass the ante handler but the fee collector changed by %s instead of the fee %s (code %d %s)", where, collectorDelta, d.fee, ci.Deliver.Code, firstLines(ci.Deliver.Log, 2))
	}
	// ... taken from the signer's own balance: the signer's balance moves by -fee plus what the message itself
	// moves (known from the message that was built), and nobody else's balance falls unless the message says so
	if signerIsCollector || ci.Built == nil || ci.Built.Msg == nil || ci.Built.Replayed {
		return nil
	}
	signerHex := hex.EncodeToString(d.signer)
	wantSigner := new(big.Int).Neg(d.fee.BigInt())
	mayFall := map[string]bool{signerHex: true}
	if ci.Deliver.Code == 0 {
		amt := ci.Built.Amount.BigInt()
		toHex := hex.EncodeToString(ci.Built.To)
		switch m := ci.Built.Msg.(type) {
		case postypes.MsgSend:
			if toHex != signerHex {
				wantSigner.Sub(wantSigner, amt)
			}
		case postypes.MsgStake:
			wantSigner.Sub(wantSigner, amt)
		case govtypes.MsgDAOTransfer:
			mayFall[hex.EncodeToString(authtypes.NewModuleAddress(govtypes.DAOAccountName))] = true
			if m.Action == "dao_transfer" && toHex == signerHex {
				wantSigner.Add(wantSigner, amt)
			}
		}
	}
	gotSigner := new(big.Int).Sub(after.coinsOf(d.signer).BigInt(), before.coinsOf(d.signer).BigInt())
	if gotSigner.Cmp(wantSigner) != 0 {
		return violf("C03/fee-not-from-signer", "%s: accepted %s tx (code %d) with fee %s: the signer's balance changed by %s, expected %s", where, ci.Tx.Kind, ci.Deliver.Code, d.fee, gotSigner, wantSigner)
	}
	for a, bc := range before.Accounts {
		if mayFall[a] || a == hex.EncodeToString(feeAddr) {
			continue
		}
		if after.Accounts[a].AmountOf(sdk.DefaultStakeDenom).LT(bc.AmountOf(sdk.DefaultStakeDenom)) {
			return violf("C03/fee-not-from-signer", "%s: accepted %s tx signed by %s lowered the balance of %s from %s to %s", where, ci.Tx.Kind, signerHex, a, bc, after.Accounts[a])
		}
	}
	return nil
}

// the message itself may move coins into / out of the fee collector account (send to a module address)
func c03CollectorTouched(ci *callInfo, feeAddr sdk.Address) bool {
	return hex.EncodeToString(ci.Built.To) == hex.EncodeToString(feeAddr)
}

func keyKind(ch *chain, ci *callInfo) string {
	if ci.Built == nil || ci.Built.SignKey < 0 {
		return "none"
	}
	return ch.pool[ci.Built.SignKey].Kind
}

var c03Mutations = []string{"chainid", "amount", "msgfield", "msgfield", "fee", "feedown", "memo", "entropy", "sigflip", "sigtrunc", "sigext", "swapkey", "sigpartial", "sigpartial", "sigshift"}

func genC03(t *rapid.T, tier string) interface{} {
	pr := &histProfile{OwnerBias: 2, MaxBlocks: 6, MinBlocksOf: []int{1, 3}, MaxTxs: 10, Evidence: 0, Missed: 0, Restart: 0,
		TxKinds:   []string{"send", "send", "send", "stake", "unstake", "unjail", "award", "burn", "param", "dao", "upgrade"},
		Mutations: c03Mutations, Modes: []string{"check", "check", "recheck", "", "", ""}, WrongSigner: 4}
	p := genHistory(t, pr)
	// a funded chain: every key has an account that can pay fees (some without a stored public key)
	have := map[int]bool{}
	for i := range p.Gen.Accounts {
		have[p.Gen.Accounts[i].Key] = true
		if p.Gen.Accounts[i].Balance < 100000 && rapid.IntRange(0, 4).Draw(t, "keeppoor") != 0 {
			p.Gen.Accounts[i].Balance = rapid.Int64Range(100000, 50000000).Draw(t, "fund")
		}
	}
	// 1 history in 4: one account carries ANOTHER key's public key in state, and the holder of that key signs for it
	// without putting a key into the signature (so the stored one is looked up)
	if len(p.Gen.Accounts) >= 2 && rapid.IntRange(0, 3).Draw(t, "foreignstored") == 0 {
		vi := rapid.IntRange(0, len(p.Gen.Accounts)-1).Draw(t, "victimacc")
		att := rapid.IntRange(0, simPoolSize-1).Draw(t, "attackerkey")
		if att != p.Gen.Accounts[vi].Key {
			p.Gen.Accounts[vi].PubOf, p.Gen.Accounts[vi].NoPub = att+1, false
			if p.Gen.Accounts[vi].Balance < 100000 {
				p.Gen.Accounts[vi].Balance = 5000000
			}
			victim := p.Gen.Accounts[vi].Key
			for bi := range p.Blocks {
				if rapid.Bool().Draw(t, "attackhere") {
					tx := hTx{Kind: rapid.SampledFrom([]string{"send", "send", "unstake", "stake"}).Draw(t, "attackkind"), From: victim, To: att, Amt: 1000,
						SignWith: att, KeyInSig: rapid.IntRange(0, 3).Draw(t, "attackkeyinsig") == 0, Entropy: int64(4400 + bi), Mode: rapid.SampledFrom([]string{"", "check"}).Draw(t, "attackmode")}
					p.Blocks[bi].Txs = append(p.Blocks[bi].Txs, tx)
				}
			}
		}
	}
	// fees in more than one denomination: half of the accounts own some "dust", and 1 transaction in 5 names dust in
	// its fee next to (or instead of) the staking denomination - the required fee is owed in the staking denomination
	// whatever else is offered
	for i := range p.Gen.Accounts {
		if rapid.Bool().Draw(t, "hasdust") {
			p.Gen.Accounts[i].Dust = rapid.SampledFrom([]int64{1, 1000, 1000000000}).Draw(t, "dust")
		}
	}
	for bi := range p.Blocks {
		for ti := range p.Blocks[bi].Txs {
			if rapid.IntRange(0, 4).Draw(t, "feedust") == 0 {
				p.Blocks[bi].Txs[ti].FeeDust = rapid.SampledFrom([]int64{1, 1, 7, 2000}).Draw(t, "feedustamt")
			}
		}
	}
	for k := 0; k < simPoolSize; k++ {
		if !have[k] && rapid.IntRange(0, 5).Draw(t, "addacc") != 0 {
			p.Gen.Accounts = append(p.Gen.Accounts, hGenAcc{Key: k, Balance: rapid.Int64Range(100000, 50000000).Draw(t, "fund2"), NoPub: rapid.IntRange(0, 3).Draw(t, "nopub2") == 0,
				Dust: rapid.SampledFrom([]int64{0, 1000}).Draw(t, "dust2")})
		}
	}
	return p
}

func execC03(prog interface{}, c *Case) *Violation {
	ch, v := newChain(prog.(*hProg), c)
	if v != nil || ch == nil {
		return v
	}
	o := &c03Oracle{c: c, cells: map[string]int{}}
	if v := ch.run(o); v != nil {
		return v
	}
	if o.aborted {
		c.Label("aborted-by-panic")
	}
	for k, n := range o.cells {
		for i := 0; i < n; i++ {
			c.Label(k)
		}
	}
	if o.forged > o.pristine && o.forged > 0 {
		c.NonTrivial()
	}
	return nil
}

func init() {
	register(&PropDef{ID: "C03",
		Rule: "funded chains of 1-6 blocks with up to 10 transactions each, of every bundled message type, signed by ed25519 / secp256k1 / (nested) multisig keys, key carried in the signature or looked up " +
			"from the signer's stored account (some accounts have no stored key), 1 in 4 signed by a key other than the declared signer, 1 in 3 with one post-signing mutation (chain id, message amount, fee up/down, " +
			"memo, entropy, signature bit flip / truncation / extension, swapped key, a multi-signature with only its first or last m<n genuine signatures), fees below/at/above the requirement, 1 in 5 also naming a second denomination that half of the accounts own, fee-multiplier parameters, replays of committed transactions; each is submitted " +
			"through CheckTx or DeliverTx and the outcome is compared with a decision model written from the statement (accept iff ... key address == declared signer, signature verifies over the delivered " +
			"content, fee >= required, not in the tx index, signer can pay); rejected => state byte-identical, accepted => fee collector +fee. Non-trivial = forged/mutated/replayed submissions outnumber " +
			"pristine ones in the history; distinctness = hash of the program",
		Gen: genC03, New: func() interface{} { return &hProg{} }, Exec: execC03, RecordCur: func(interface{}) bool { return true },
		Assum: []string{"signature verification primitives (C19) and sign-bytes construction (C20) are trusted here", "a replay inside the same block is not covered (the tx index only knows committed blocks)",
			"only accept/reject is compared, not which rejection reason wins"}})
}
