package props

// C13, application level: the process that dies inside Commit is a whole node - BaseApp over the rootmulti store,
// with everything that happened in that process before (custom queries served through CopyStore, CheckTx and
// simulate traffic, parameter changes). The store-level enumeration (c12_commit.go) drives rootmulti alone and
// cannot see what the application layer does to the stores it shares with its query path.
//
// Shape: a chain history (the C01 generator: transactions, evidence, absences, custom/store queries, CheckTx /
// simulate traffic) is executed on one instance over a crashDB. For each block marked for interruption the durable
// write units of the application's Commit are logged with their values; every prefix of that log is applied to a
// clone of the database as it was before the Commit - the disk of a process that died after k units - and a NEW
// application is opened on it: it must load, report the previous or (only after the last unit) the new height with
// that height's app hash, and when it reports the previous height, re-executing the interrupted block (the same
// BeginBlock / DeliverTx / EndBlock requests, as Tendermint's handshake replays them) must commit to the hash of
// the uninterrupted run.

import (
	"bytes"
	"encoding/json"
	"fmt"

	sdk "github.com/pokt-network/posmint/types"

	abci "github.com/tendermint/tendermint/abci/types"
	tmtypes "github.com/tendermint/tendermint/types"
	"pgregory.net/rapid"
)

type c13AppOracle struct {
	c        *Case
	p        *c12Prog
	crashAt  map[int]bool
	beginReq abci.RequestBeginBlock
	hashes   map[int64][]byte
	durable  *crashDB
	logging  bool
	queries  int // queries served by this process so far
	inside   bool
	evals    int
	progKey  uint64
	// which of the interrupted block's transactions were in the tx index before the block (replays of committed ones)
	indexedBefore []bool
}

// policyReleases: the configured pruning policy releases version v when version v+1 is committed (the documented
// rule: at commit V release V-1-keepRecent unless it is a multiple of keepEvery)
func policyReleases(keepRecent, keepEvery, v int64) bool {
	if keepRecent != 0 || v < 1 {
		return false
	}
	return keepEvery == 0 || v%keepEvery != 0
}

func (o *c13AppOracle) after(ch *chain, ci *callInfo) *Violation {
	if ci.Panic != nil {
		o.c.Label("app:panic:" + ci.Kind + ":" + panicClass(ci.Panic))
		return nil
	}
	switch ci.Kind {
	case "begin":
		o.beginReq = ci.Req
	case "query":
		o.queries++
	case "commit":
		h := ci.Height
		o.hashes[h] = ci.Commit.Data
		if !o.logging {
			return nil
		}
		o.logging = false
		units := ch.db.stopLog()
		return o.enumerate(ch, ci, h, units)
	}
	return nil
}

func (o *c13AppOracle) enumerate(ch *chain, ci *callInfo, h int64, units []crashUnit) *Violation {
	W := len(units)
	g := &ch.p.Gen
	names := []string{ch.app.keyMain.Name(), ch.app.keyAuth.Name(), ch.app.keyPos.Name(), sdk.ParamsKey.Name()}
	// Tendermint indexes a block's transactions after the application has committed it: the recovering node's
	// index does not contain the interrupted block yet
	// (a transaction that repeats one of an earlier block stays indexed)
	for i, txb := range ch.blockTxs {
		if !o.indexedBefore[i] {
			ch.index.remove(tmtypes.Tx(txb).Hash())
		}
	}
	defer func() {
		for i, txb := range ch.blockTxs {
			if !o.indexedBefore[i] {
				ch.index.add(tmtypes.Tx(txb).Hash(), ch.blockCode[i])
			}
		}
	}()
	for k := 0; k <= W; k++ {
		dbk := o.durable.clone()
		dbk.applyUnits(units[:k])
		prunedLastFlushed := false
		for _, u := range units[:k] {
			for _, d := range u.Deletes {
				for _, n := range names {
					if d == iavlRootKey(n, h-1) {
						prunedLastFlushed = true
					}
				}
			}
		}
		nt := k > 0 && k < W
		o.c.Eval(fmt.Sprintf("app %x h%d k%d/%d", o.progKey, h, k, W), nt)
		o.evals++
		if nt {
			o.inside = true
		}
		where := fmt.Sprintf("node dies after %d of %d durable write units of the Commit of block %d (keepRecent=%d keepEvery=%d, %d queries served before)", k, W, h, g.KeepRecent, g.KeepEvery, o.queries)
		var app *simApp
		var err error
		res := catch(func() { app, err = newSimApp(dbk, ch.pruning(), ch.gen) })
		if res.panicked || err != nil {
			sig := "C13/app/reopen-fails-after-crash"
			if prunedLastFlushed && k < W && policyReleases(g.KeepRecent, g.KeepEvery, h-1) {
				// known finding: the configured policy releases the version the commit info still points at before the flush
				sig = "C13/reopen-fails-after-crash/last-flushed-version-pruned-before-flush"
				if o.c.Known(sig) {
					continue
				}
			}
			return violf(sig, "%s: a new application cannot open the database: err=%v panic=%v", where, err, res.pv)
		}
		info := app.Info(abci.RequestInfo{})
		hk := info.LastBlockHeight
		if hk != h-1 && hk != h {
			return violf("C13/app/version-after-crash", "%s: the reopened application reports height %d", where, hk)
		}
		if hk == h && k < W {
			return violf("C13/app/new-version-visible-early", "%s: the reopened application already reports the new height", where)
		}
		if !bytes.Equal(info.LastBlockAppHash, o.hashes[hk]) {
			return violf("C13/app/hash-after-crash", "%s: reopened at height %d with app hash %X, the uninterrupted run committed %X", where, hk, info.LastBlockAppHash, o.hashes[hk])
		}
		if hk == h {
			continue
		}
		// re-execute the interrupted block
		var hash []byte
		codes := make([]uint32, len(ch.blockTxs))
		res = catch(func() {
			app.BeginBlock(o.beginReq)
			for i, txb := range ch.blockTxs {
				codes[i] = app.DeliverTx(abci.RequestDeliverTx{Tx: txb}).Code
			}
			app.EndBlock(abci.RequestEndBlock{Height: h})
			hash = app.Commit().Data
		})
		if res.panicked {
			return violf("C13/app/replay-fails", "%s: reopened at %d; re-executing block %d panics: %v", where, hk, h, res.pv)
		}
		for i := range codes {
			if codes[i] != ch.blockCode[i] {
				return violf("C13/app/replay-result", "%s: reopened at %d; re-executing block %d: transaction %d returns code %d, the uninterrupted run %d", where, hk, h, i, codes[i], ch.blockCode[i])
			}
		}
		if !bytes.Equal(hash, ci.Commit.Data) {
			return violf("C13/app/replay-hash", "%s: reopened at %d; re-executing block %d commits to %X, the uninterrupted run to %X", where, hk, h, hash, ci.Commit.Data)
		}
		if o.queries > 0 {
			o.c.Label("app:crash-after-queries-were-served")
		}
	}
	return nil
}

func genC13App(t *rapid.T, tier string) *c12Prog {
	pr := &histProfile{Scripts: true, OwnerBias: 2, MaxBlocks: 8, MinBlocksOf: []int{2, 4, 6}, MaxTxs: 4, Evidence: 6, Missed: 3, Restart: 0, Queries: true,
		TxKinds: defaultTxKinds, Modes: []string{"", "", "", "check", "simulate"}}
	if tier == "thorough" {
		pr.MaxBlocks = 14
	}
	h := genHistory(t, pr)
	p := &c12Prog{App: h}
	// interrupt the last commit and up to two earlier ones (never the first: a crash inside the first commit is
	// followed by a new InitChain, which is the known first-commit finding of the store-level check)
	n := len(h.Blocks)
	if n >= 2 {
		p.CrashAt = append(p.CrashAt, n-1)
		for i := 0; i < 2; i++ {
			if b := rapid.IntRange(1, n-1).Draw(t, "crashat"); b != n-1 && (len(p.CrashAt) < 2 || p.CrashAt[1] != b) {
				p.CrashAt = append(p.CrashAt, b)
			}
		}
	}
	return p
}

func execC13App(p *c12Prog, c *Case) *Violation {
	ch, v := newChain(p.App, c)
	if v != nil || ch == nil {
		return v
	}
	ch.noViews = true
	o := &c13AppOracle{c: c, p: p, crashAt: map[int]bool{}, hashes: map[int64][]byte{}}
	if bz, err := json.Marshal(p.App); err == nil {
		o.progKey = hash64(bz)
	}
	for _, b := range p.CrashAt {
		if b >= 1 {
			o.crashAt[b] = true
		}
	}
	ch.preCommit = func(bi int) {
		if o.crashAt[bi] {
			o.durable = ch.db.clone()
			o.indexedBefore = make([]bool, len(ch.blockTxs))
			for i, txb := range ch.blockTxs {
				o.indexedBefore[i] = ch.index.has(tmtypes.Tx(txb).Hash())
			}
			ch.db.startLog()
			o.logging = true
		}
	}
	if v := ch.run(o); v != nil {
		return v
	}
	c.Labelf("app:keepRecent=%d keepEvery=%d", p.App.Gen.KeepRecent, p.App.Gen.KeepEvery)
	c.Label("app-level-history")
	_ = o.inside
	return nil
}
