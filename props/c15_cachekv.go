package props

// C15 — Cache-wrapped stores behave like an overlay that is applied atomically.
// Sequential mode: stateful model (stack of sorted maps with tombstones).
// Concurrent mode: goroutines on one wrapper, per-key linearizability (porcupine), final state.

import (
	"bytes"
	"fmt"
	"runtime"
	"sync"
	"sync/atomic"
	"time"

	"github.com/anishathalye/porcupine"
	"github.com/tendermint/iavl"
	dbm "github.com/tendermint/tm-db"
	"pgregory.net/rapid"

	"github.com/pokt-network/posmint/store/cachekv"
	"github.com/pokt-network/posmint/store/cachemulti"
	"github.com/pokt-network/posmint/store/dbadapter"
	iavlstore "github.com/pokt-network/posmint/store/iavl"
	"github.com/pokt-network/posmint/store/prefix"
	stypes "github.com/pokt-network/posmint/store/types"
)

type c15Op struct {
	Op  string  `json:"op"` // get has set del iter open step close write wrap discard
	St  int     `json:"st,omitempty"`
	K   string  `json:"k,omitempty"`
	V   string  `json:"v,omitempty"`
	S   *string `json:"s,omitempty"`
	E   *string `json:"e,omitempty"`
	Rev bool    `json:"rev,omitempty"`
	It  int     `json:"it,omitempty"`
	N   int     `json:"n,omitempty"`
}

type c15Prog struct {
	Base    string     `json:"base"` // mem iavl prefix multi
	NStores int        `json:"nstores"`
	Init    [][]kvPair `json:"init"` // per substore
	Ops     []c15Op    `json:"ops,omitempty"`
	Threads [][]c15Op  `json:"threads,omitempty"` // concurrent mode (single store, get/has/set/del only)
	// every key, value and bound handed to the stores carries this much spare (poisoned) capacity
	Spare int `json:"spare,omitempty"`
	// concurrent mode: the initial content sits in the parent (reads go through to it) instead of in the wrapper
	ParentInit bool `json:"parent_init,omitempty"`
	// concurrent mode with a harness-owned schedule: two threads run in lock step; whenever thread 0's operation
	// reaches the parent store (a read-through of an uncached key) it is held there while thread 1's operation of the
	// same step is started - the interleaving in which a wrapper that lets go of its lock during the parent read
	// loses an update
	Gated bool `json:"gated,omitempty"`
}

// ---------------------------------------------------------------------------------------------
// generator

func genC15Op(multi int, allowEmpty bool, pool []string) func(t *rapid.T) c15Op {
	key := func(t *rapid.T) string {
		// half of the keys come from the initial parent content so that shadowing happens
		if len(pool) > 0 && rapid.Bool().Draw(t, "frompool") {
			return rapid.SampledFrom(pool).Draw(t, "poolkey")
		}
		return genKeyHex(t, "k", 1, 3)
	}
	return func(t *rapid.T) c15Op {
		var o c15Op
		o.Op = rapid.SampledFrom([]string{"get", "has", "set", "set", "set", "del", "del", "iter", "iter", "open", "step", "step", "close", "write", "wrap", "discard"}).Draw(t, "op")
		if multi > 1 {
			o.St = rapid.IntRange(0, multi-1).Draw(t, "st")
		}
		switch o.Op {
		case "get", "has", "del":
			o.K = key(t)
		case "set":
			o.K = key(t)
			o.V = genValHex(t, "v", allowEmpty)
		case "iter", "open":
			o.S, o.E = genBound(t, "s"), genBound(t, "e")
			o.Rev = rapid.Bool().Draw(t, "rev")
			o.It = rapid.IntRange(0, 2).Draw(t, "slot")
			if o.Op == "iter" && rapid.IntRange(0, 2).Draw(t, "full") == 0 {
				o.S, o.E = nil, nil
			}
		case "step":
			o.It = rapid.IntRange(0, 2).Draw(t, "slot")
			o.N = rapid.IntRange(1, 4).Draw(t, "n")
		case "close":
			o.It = rapid.IntRange(0, 2).Draw(t, "slot")
		}
		return o
	}
}

func genInit(t *rapid.T, label string, allowEmpty bool) []kvPair {
	n := rapid.IntRange(0, 8).Draw(t, label+".n")
	seen := map[string]bool{}
	var out []kvPair
	for i := 0; i < n; i++ {
		k := genKeyHex(t, label+".k", 1, 3)
		if seen[k] {
			continue
		}
		seen[k] = true
		out = append(out, kvPair{K: k, V: genValHex(t, label+".v", allowEmpty)})
	}
	return out
}

func genC15(t *rapid.T, tier string) interface{} {
	p := &c15Prog{NStores: 1}
	p.Base = rapid.SampledFrom([]string{"mem", "mem", "iavl", "prefix", "multi", "conc"}).Draw(t, "base")
	p.Spare = rapid.SampledFrom([]int{0, 0, 1, 8}).Draw(t, "spare")
	allowEmpty := p.Base == "mem"
	if p.Base == "conc" {
		p.Base = "mem"
		p.Init = [][]kvPair{genInit(t, "init", false)}
		p.ParentInit = rapid.Bool().Draw(t, "parentinit")
		nth := rapid.IntRange(2, 4).Draw(t, "threads")
		if rapid.Bool().Draw(t, "gated") {
			p.Gated, p.ParentInit, nth = true, true, 2
		}
		for i := 0; i < nth; i++ {
			ops := rapid.SliceOfN(rapid.Custom(func(t *rapid.T) c15Op {
				o := c15Op{Op: rapid.SampledFrom([]string{"get", "has", "set", "del"}).Draw(t, "op")}
				// two hot keys so that goroutines collide
				o.K = rapid.SampledFrom([]string{"00", "61", "6100", "ff"}).Draw(t, "k")
				if o.Op == "set" {
					o.V = genValHex(t, "v", false)
				}
				o.N = rapid.IntRange(0, 2).Draw(t, "yield") // scheduler yields before the call
				return o
			}), 1, 24).Draw(t, fmt.Sprintf("thread%d", i))
			p.Threads = append(p.Threads, ops)
		}
		return p
	}
	if p.Base == "multi" {
		p.NStores = rapid.IntRange(2, 3).Draw(t, "nstores")
	}
	for i := 0; i < p.NStores; i++ {
		p.Init = append(p.Init, genInit(t, fmt.Sprintf("init%d", i), allowEmpty))
	}
	maxOps := 40
	if tier == "thorough" {
		maxOps = 80
	}
	var pool []string
	for _, in := range p.Init {
		for _, kv := range in {
			pool = append(pool, kv.K)
		}
	}
	minOps := rapid.SampledFrom([]int{1, 8, 16}).Draw(t, "minops") // rapid's slices are short on average; shrinks towards 1
	p.Ops = rapid.SliceOfN(rapid.Custom(genC15Op(p.NStores, allowEmpty, pool)), minOps, maxOps).Draw(t, "ops")
	return p
}

// ---------------------------------------------------------------------------------------------
// the system under test: a stack of levels, each exposing NStores KV stores

type c15Level interface {
	kv(i int) stypes.KVStore
	write()
	wrap() c15Level
}

type c15Single struct{ s stypes.KVStore }

func (l c15Single) kv(int) stypes.KVStore { return l.s }
func (l c15Single) write()                { l.s.(stypes.CacheKVStore).Write() }
func (l c15Single) wrap() c15Level        { return c15Single{l.s.CacheWrap().(stypes.KVStore)} }

type c15MultiBase struct {
	keys   []stypes.StoreKey
	stores map[stypes.StoreKey]stypes.CacheWrapper
	kvs    []stypes.KVStore
}

func (l *c15MultiBase) kv(i int) stypes.KVStore { return l.kvs[i] }
func (l *c15MultiBase) write()                  { panic("harness: base level has no Write") }
func (l *c15MultiBase) wrap() c15Level {
	keys := map[string]stypes.StoreKey{}
	for _, k := range l.keys {
		keys[k.Name()] = k
	}
	return c15Multi{cms: cachemulti.NewStore(dbm.NewMemDB(), l.stores, keys, nil, nil), keys: l.keys}
}

type c15Multi struct {
	cms  stypes.CacheMultiStore
	keys []stypes.StoreKey
}

func (l c15Multi) kv(i int) stypes.KVStore { return l.cms.GetKVStore(l.keys[i]) }
func (l c15Multi) write()                  { l.cms.Write() }
func (l c15Multi) wrap() c15Level          { return c15Multi{cms: l.cms.CacheMultiStore(), keys: l.keys} }

func c15BaseStore(kind string, init []kvPair) stypes.KVStore {
	var st stypes.KVStore
	switch kind {
	case "mem", "multi":
		st = dbadapter.Store{DB: dbm.NewMemDB()}
	case "iavl":
		tree := iavl.NewMutableTree(dbm.NewMemDB(), 100)
		st = iavlstore.UnsafeNewStore(tree, 10, 10)
	case "prefix":
		parent := dbadapter.Store{DB: dbm.NewMemDB()}
		// neighbours outside the prefix that must never be seen
		parent.Set([]byte{0x60, 0xff}, []byte{1})
		parent.Set([]byte{0x62}, []byte{2})
		parent.Set([]byte{0x61}, []byte{3})
		st = prefix.NewStore(parent, []byte{0x61, 0xff})
	default:
		panic("harness: bad base " + kind)
	}
	for _, kv := range init {
		st.Set(unhex(kv.K), unhex(kv.V))
	}
	return st
}

type c15OpenIter struct {
	it       stypes.Iterator
	level    int
	st       int
	start    []byte
	end      []byte
	asc      bool
	atOpen   flatKV
	touched  map[string]bool
	yielded  []string
	yieldSet map[string]bool
}

type c15State struct {
	p      *c15Prog
	levels []c15Level
	models []*stackKV // per substore
	iters  [3]*c15OpenIter
	c      *Case
}

func (s *c15State) top() int { return len(s.levels) - 1 }

func (s *c15State) closeIters() {
	for i, oi := range s.iters {
		if oi != nil {
			oi.it.Close()
			s.iters[i] = nil
		}
	}
}

// checkLevel compares the full content of level l (all substores) with the model.
func (s *c15State) checkLevel(l int, when string) *Violation {
	for i := 0; i < s.p.NStores; i++ {
		got := dumpStore(s.levels[l].kv(i))
		want := s.models[i].view(l)
		if !flatEqual(got, want) {
			sig := "C15/parent-changed-before-write"
			if l == s.top() {
				sig = "C15/view-differs-from-overlay"
			}
			if when == "after write" {
				sig = "C15/write-result"
			}
			return violf(sig, "%s: level %d store %d holds %v, model %v", when, l, i, got, want)
		}
	}
	return nil
}

func execC15(prog interface{}, c *Case) *Violation {
	p := prog.(*c15Prog)
	if len(p.Threads) > 0 {
		return execC15Conc(p, c)
	}
	c.Label("base=" + p.Base)
	s := &c15State{p: p, c: c}
	// base level
	if p.Base == "multi" {
		mb := &c15MultiBase{stores: map[stypes.StoreKey]stypes.CacheWrapper{}}
		for i := 0; i < p.NStores; i++ {
			k := stypes.NewKVStoreKey(fmt.Sprintf("s%d", i))
			st := c15BaseStore("mem", p.Init[i])
			mb.keys = append(mb.keys, k)
			mb.stores[k] = st
			mb.kvs = append(mb.kvs, st)
		}
		s.levels = []c15Level{mb}
	} else {
		s.levels = []c15Level{c15Single{c15BaseStore(p.Base, p.Init[0])}}
	}
	for i := 0; i < p.NStores; i++ {
		m := &stackKV{base: flatKV{}}
		for _, kv := range p.Init[i] {
			m.base[string(unhex(kv.K))] = unhex(kv.V)
		}
		s.models = append(s.models, m)
	}
	// the first wrapper
	s.push()
	defer s.closeIters()

	maxDepth, innerWrite, shadowIter, interleaved := 1, false, false, false
	for idx := range p.Ops {
		o := &p.Ops[idx]
		if o.St >= p.NStores {
			o.St = 0
		}
		top := s.top()
		st := s.levels[top].kv(o.St)
		m := s.models[o.St]
		cur := m.view(top)
		switch o.Op {
		case "get":
			k := withSpare(unhex(o.K), p.Spare)
			got := st.Get(k)
			want, ok := cur[string(k)]
			if (got == nil) != !ok || !bytes.Equal(got, want) {
				return violf("C15/get", "op %d Get(%x) = %x, model %x (present %v)", idx, k, got, want, ok)
			}
		case "has":
			k := withSpare(unhex(o.K), p.Spare)
			_, ok := cur[string(k)]
			if got := st.Has(k); got != ok {
				return violf("C15/has", "op %d Has(%x) = %v, model %v", idx, k, got, ok)
			}
		case "set":
			k, v := withSpare(unhex(o.K), p.Spare), withSpare(unhex(o.V), p.Spare)
			st.Set(k, v)
			m.ov[top-1].put(string(k), v)
			s.touch(top, o.St, string(k))
			if v := s.checkBelowKey(o.St, k, idx); v != nil {
				return v
			}
		case "del":
			k := withSpare(unhex(o.K), p.Spare)
			st.Delete(k)
			m.ov[top-1].remove(string(k))
			s.touch(top, o.St, string(k))
			if v := s.checkBelowKey(o.St, k, idx); v != nil {
				return v
			}
		case "iter":
			start, end := withSpare(optBytes(o.S), p.Spare), withSpare(optBytes(o.E), p.Spare)
			var it stypes.Iterator
			if o.Rev {
				it = st.ReverseIterator(start, end)
			} else {
				it = st.Iterator(start, end)
			}
			want := cur.rangeKeys(start, end, !o.Rev)
			i := 0
			for ; it.Valid(); it.Next() {
				k, v := it.Key(), it.Value()
				if i >= len(want) || string(k) != want[i] || !bytes.Equal(v, cur[want[i]]) {
					it.Close()
					return violf("C15/iterator", "op %d iterator[%x,%x) rev=%v item %d = (%x,%x); model order %s over %v", idx, start, end, o.Rev, i, k, v, hexKeys(want), cur)
				}
				i++
			}
			it.Close()
			if i != len(want) {
				return violf("C15/iterator", "op %d iterator[%x,%x) rev=%v ended after %d items; model order %s over %v", idx, start, end, o.Rev, i, hexKeys(want), cur)
			}
			// does the range contain a parent key shadowed by a delete and a cache-only key?
			below := m.view(top - 1)
			hasShadow, hasCacheOnly := false, false
			for k := range m.ov[top-1].del {
				if _, ok := below[k]; ok && inDomain(k, start, end) {
					hasShadow = true
				}
			}
			for k := range m.ov[top-1].set {
				if _, ok := below[k]; !ok && inDomain(k, start, end) {
					hasCacheOnly = true
				}
			}
			if hasShadow && hasCacheOnly {
				shadowIter = true
			}
		case "open":
			if s.iters[o.It] != nil {
				s.iters[o.It].it.Close()
			}
			start, end := withSpare(optBytes(o.S), p.Spare), withSpare(optBytes(o.E), p.Spare)
			oi := &c15OpenIter{level: top, st: o.St, start: start, end: end, asc: !o.Rev, atOpen: cur, touched: map[string]bool{}, yieldSet: map[string]bool{}}
			if o.Rev {
				oi.it = st.ReverseIterator(start, end)
			} else {
				oi.it = st.Iterator(start, end)
			}
			s.iters[o.It] = oi
		case "step":
			oi := s.iters[o.It]
			if oi == nil {
				continue
			}
			if len(oi.touched) > 0 {
				interleaved = true
			}
			for n := 0; n < o.N; n++ {
				if v := s.stepIter(oi, idx); v != nil {
					return v
				}
			}
		case "close":
			if oi := s.iters[o.It]; oi != nil {
				oi.it.Close()
				s.iters[o.It] = nil
			}
		case "write":
			s.closeIters()
			s.levels[top].write()
			for i := 0; i < p.NStores; i++ {
				mm := s.models[i]
				if top == 1 {
					mm.base = applyOverlay(mm.base, mm.ov[0])
				} else {
					lower := mm.ov[top-2]
					for k := range mm.ov[top-1].del {
						lower.remove(k)
					}
					for k, v := range mm.ov[top-1].set {
						lower.put(k, v)
					}
				}
				mm.ov[top-1] = newOverlay()
			}
			if top >= 2 {
				innerWrite = true
			}
			// the parent now holds the overlaid view, the wrapper is clean and shows the same view
			if v := s.checkLevel(top-1, "after write"); v != nil {
				return v
			}
			if v := s.checkLevel(top, "after write"); v != nil {
				return v
			}
			for l := 0; l < top-1; l++ {
				if v := s.checkLevel(l, "lower level after inner write"); v != nil {
					return v
				}
			}
		case "wrap":
			if s.top() >= 4 {
				continue
			}
			s.push()
			if s.top() > maxDepth {
				maxDepth = s.top()
			}
		case "discard":
			if s.top() <= 1 {
				continue
			}
			s.closeIters()
			s.levels = s.levels[:top]
			for i := 0; i < p.NStores; i++ {
				s.models[i].ov = s.models[i].ov[:top-1]
			}
			for l := 0; l <= s.top(); l++ {
				if v := s.checkLevel(l, "after discard"); v != nil {
					return v
				}
			}
		default:
			panic("harness: bad op " + o.Op)
		}
	}
	s.closeIters()
	for l := 0; l <= s.top(); l++ {
		if v := s.checkLevel(l, "at end"); v != nil {
			return v
		}
	}
	c.Labelf("depth=%d", maxDepth)
	if innerWrite {
		c.Label("inner-write")
	}
	if shadowIter {
		c.Label("iter-over-shadowed-and-cache-only")
	}
	if interleaved {
		c.Label("iter-with-interleaved-writes")
	}
	if shadowIter || (maxDepth >= 2 && innerWrite) {
		c.NonTrivial()
	}
	return nil
}

func hexKeys(ks []string) string {
	s := "["
	for _, k := range ks {
		s += fmt.Sprintf("%x ", k)
	}
	return s + "]"
}

func (s *c15State) push() {
	s.levels = append(s.levels, s.levels[s.top()].wrap())
	for _, m := range s.models {
		m.ov = append(m.ov, newOverlay())
	}
}

func (s *c15State) touch(level, st int, k string) {
	for _, oi := range s.iters {
		if oi != nil && oi.level == level && oi.st == st {
			oi.touched[k] = true
		}
	}
}

// the level directly below the top must not see the write
func (s *c15State) checkBelowKey(st int, k []byte, idx int) *Violation {
	top := s.top()
	below := s.models[st].view(top - 1)
	got := s.levels[top-1].kv(st).Get(k)
	want, ok := below[string(k)]
	if (got == nil) != !ok || !bytes.Equal(got, want) {
		return violf("C15/parent-changed-before-write", "op %d: parent level %d now has %x=%x, model %x (present %v)", idx, top-1, k, got, want, ok)
	}
	return nil
}

// stepIter advances an iterator that may have seen interleaved writes (weak oracle, DESIGN C15).
func (s *c15State) stepIter(oi *c15OpenIter, idx int) *Violation {
	cur := s.models[oi.st].view(oi.level)
	if !oi.it.Valid() {
		// exhausted: every key of the range untouched since open must have been yielded
		for _, k := range oi.atOpen.rangeKeys(oi.start, oi.end, oi.asc) {
			if !oi.touched[k] && !oi.yieldSet[k] {
				return violf("C15/open-iterator/missed-key", "op %d: iterator [%x,%x) asc=%v ended without yielding untouched key %x (yielded %s)", idx, oi.start, oi.end, oi.asc, k, hexKeys(oi.yielded))
			}
		}
		return nil
	}
	k, v := oi.it.Key(), oi.it.Value()
	ks := string(k)
	if !inDomain(ks, oi.start, oi.end) {
		return violf("C15/open-iterator/out-of-range", "op %d: iterator [%x,%x) yielded %x", idx, oi.start, oi.end, k)
	}
	if n := len(oi.yielded); n > 0 {
		cmp := bytes.Compare([]byte(oi.yielded[n-1]), k)
		if (oi.asc && cmp >= 0) || (!oi.asc && cmp <= 0) {
			return violf("C15/open-iterator/not-monotone", "op %d: iterator asc=%v yielded %x after %x", idx, oi.asc, k, oi.yielded[n-1])
		}
	}
	vo, okO := oi.atOpen[ks]
	vc, okC := cur[ks]
	if !((okO && bytes.Equal(vo, v)) || (okC && bytes.Equal(vc, v))) {
		return violf("C15/open-iterator/phantom-item", "op %d: iterator yielded (%x,%x) which was live neither at open (%x,%v) nor now (%x,%v)", idx, k, v, vo, okO, vc, okC)
	}
	// untouched keys that the iterator has passed must have been yielded
	for _, uk := range oi.atOpen.rangeKeys(oi.start, oi.end, oi.asc) {
		cmp := bytes.Compare([]byte(uk), k)
		passed := (oi.asc && cmp < 0) || (!oi.asc && cmp > 0)
		if passed && !oi.touched[uk] && !oi.yieldSet[uk] {
			return violf("C15/open-iterator/missed-key", "op %d: iterator asc=%v skipped untouched key %x (now at %x)", idx, oi.asc, uk, k)
		}
	}
	oi.yielded = append(oi.yielded, ks)
	oi.yieldSet[ks] = true
	oi.it.Next()
	return nil
}

// ---------------------------------------------------------------------------------------------
// concurrent mode

type c15RegIn struct {
	op  string
	key string
	val string
}
type c15RegOut struct {
	val     string
	present bool
}

// per-key register: state is "" + present flag encoded as *string
var c15RegModel = porcupine.Model{
	Partition: func(history []porcupine.Operation) [][]porcupine.Operation {
		m := map[string][]porcupine.Operation{}
		var keys []string
		for _, op := range history {
			k := op.Input.(c15RegIn).key
			if _, ok := m[k]; !ok {
				keys = append(keys, k)
			}
			m[k] = append(m[k], op)
		}
		var out [][]porcupine.Operation
		for _, k := range keys {
			out = append(out, m[k])
		}
		return out
	},
	Init: func() interface{} { return c15RegOut{} },
	Step: func(state, input, output interface{}) (bool, interface{}) {
		st := state.(c15RegOut)
		in := input.(c15RegIn)
		out := output.(c15RegOut)
		switch in.op {
		case "set":
			return true, c15RegOut{val: in.val, present: true}
		case "del":
			return true, c15RegOut{}
		case "get":
			return out.present == st.present && (!st.present || out.val == st.val), st
		case "has":
			return out.present == st.present, st
		}
		return false, st
	},
	Equal: func(a, b interface{}) bool { return a.(c15RegOut) == b.(c15RegOut) },
}

// c15Gate: a parent store whose reads can be held (harness-owned schedule for the concurrent mode)
type c15Gate struct {
	stypes.KVStore
	mu      sync.Mutex
	armed   bool
	entered chan struct{}
	release chan struct{}
}

func (g *c15Gate) arm() {
	select {
	case <-g.entered:
	default:
	}
	select {
	case <-g.release:
	default:
	}
	g.mu.Lock()
	g.armed = true
	g.mu.Unlock()
}

func (g *c15Gate) disarm() {
	g.mu.Lock()
	g.armed = false
	g.mu.Unlock()
}

func (g *c15Gate) pause() {
	g.mu.Lock()
	a := g.armed
	g.armed = false
	g.mu.Unlock()
	if !a {
		return
	}
	g.entered <- struct{}{}
	select {
	case <-g.release:
	case <-time.After(50 * time.Millisecond):
	}
}

func (g *c15Gate) Get(k []byte) []byte         { g.pause(); return g.KVStore.Get(k) }
func (g *c15Gate) Has(k []byte) bool           { g.pause(); return g.KVStore.Has(k) }
func (g *c15Gate) CacheWrap() stypes.CacheWrap { return cachekv.NewStore(g) }

func execC15Conc(p *c15Prog, c *Case) *Violation {
	c.Label("concurrent")
	base := c15BaseStore("mem", nil)
	store := base.CacheWrap().(stypes.CacheKVStore)
	var gate *c15Gate
	if p.Gated {
		c.Label("concurrent-gated")
		gate = &c15Gate{KVStore: base, entered: make(chan struct{}, 1), release: make(chan struct{}, 1)}
		store = cachekv.NewStore(gate)
	}
	// initial content goes in through the wrapper, recorded as completed operations at time 0
	var clock int64
	var hist []porcupine.Operation
	initial := flatKV{}
	for _, kv := range p.Init[0] {
		if p.ParentInit {
			base.Set(unhex(kv.K), unhex(kv.V))
			initial[string(unhex(kv.K))] = unhex(kv.V)
		} else {
			store.Set(unhex(kv.K), unhex(kv.V))
		}
		t := atomic.AddInt64(&clock, 1)
		hist = append(hist, porcupine.Operation{ClientId: 0, Input: c15RegIn{"set", string(unhex(kv.K)), string(unhex(kv.V))}, Call: t, Output: c15RegOut{}, Return: atomic.AddInt64(&clock, 1)})
	}
	var mu sync.Mutex
	var wg sync.WaitGroup
	startCh := make(chan struct{})
	runOp := func(cid int, o c15Op) porcupine.Operation {
		k := unhex(o.K)
		in := c15RegIn{op: o.Op, key: string(k)}
		var out c15RegOut
		call := atomic.AddInt64(&clock, 1)
		switch o.Op {
		case "get":
			v := store.Get(k)
			out = c15RegOut{val: string(v), present: v != nil}
		case "has":
			out = c15RegOut{present: store.Has(k)}
		case "set":
			in.val = string(unhex(o.V))
			store.Set(k, unhex(o.V))
		case "del":
			store.Delete(k)
		}
		return porcupine.Operation{ClientId: cid, Input: in, Call: call, Output: out, Return: atomic.AddInt64(&clock, 1)}
	}
	threads := p.Threads
	if p.Gated && len(p.Threads) >= 2 {
		threads = nil
		held, overlapped := 0, 0
		n := len(p.Threads[0])
		if len(p.Threads[1]) < n {
			n = len(p.Threads[1])
		}
		for i := 0; i < n; i++ {
			a, b := p.Threads[0][i], p.Threads[1][i]
			gate.arm()
			doneA := make(chan porcupine.Operation, 1)
			go func() { doneA <- runOp(1, a) }()
			select {
			case <-gate.entered:
				// thread 0 sits in the parent read: start thread 1's operation and give it a moment. A wrapper that holds
				// its lock across the read keeps it waiting; the verdict is the linearizability of what was observed
				held++
				doneB := make(chan porcupine.Operation, 1)
				go func() { doneB <- runOp(2, b) }()
				var opB porcupine.Operation
				gotB := false
				select {
				case opB = <-doneB:
					gotB = true
					overlapped++
				case <-time.After(time.Millisecond):
				}
				gate.release <- struct{}{}
				opA := <-doneA
				if !gotB {
					opB = <-doneB
				}
				hist = append(hist, opA, opB)
			case opA := <-doneA:
				gate.disarm()
				hist = append(hist, opA, runOp(2, b))
			}
		}
		if held > 0 {
			c.Label("concurrent-gated:read-through-held")
		}
		if overlapped > 0 {
			c.Label("concurrent-gated:other-thread-completed-during-the-read")
		}
	}
	for ti, ops := range threads {
		wg.Add(1)
		go func(ti int, ops []c15Op) {
			defer wg.Done()
			<-startCh
			var local []porcupine.Operation
			for _, o := range ops {
				k := unhex(o.K)
				in := c15RegIn{op: o.Op, key: string(k)}
				var out c15RegOut
				for y := 0; y < o.N; y++ {
					runtime.Gosched()
				}
				call := atomic.AddInt64(&clock, 1)
				switch o.Op {
				case "get":
					v := store.Get(k)
					out = c15RegOut{val: string(v), present: v != nil}
				case "has":
					out = c15RegOut{present: store.Has(k)}
				case "set":
					in.val = string(unhex(o.V))
					store.Set(k, unhex(o.V))
				case "del":
					store.Delete(k)
				}
				ret := atomic.AddInt64(&clock, 1)
				local = append(local, porcupine.Operation{ClientId: ti + 1, Input: in, Call: call, Output: out, Return: ret})
			}
			mu.Lock()
			hist = append(hist, local...)
			mu.Unlock()
		}(ti, ops)
	}
	close(startCh)
	wg.Wait()
	// final reads, sequential, after everything
	final := dumpStore(store)
	for _, k := range []string{"00", "61", "6100", "ff"} {
		kb := unhex(k)
		v, ok := final[string(kb)]
		call := atomic.AddInt64(&clock, 1)
		hist = append(hist, porcupine.Operation{ClientId: 0, Input: c15RegIn{op: "get", key: string(kb)}, Call: call,
			Output: c15RegOut{val: string(v), present: ok}, Return: atomic.AddInt64(&clock, 1)})
	}
	if !porcupine.CheckOperations(c15RegModel, hist) {
		return violf("C15/concurrent/not-linearizable", "history of %d operations on one wrapper is not linearizable per key: %v", len(hist), fmtHist(hist))
	}
	// parent untouched before Write, and equal to the final view after it
	if got := dumpStore(base); !flatEqual(got, initial) {
		return violf("C15/parent-changed-before-write", "concurrent mode: parent holds %v before Write, it was given %v", got, initial)
	}
	store.Write()
	if got := dumpStore(base); !flatEqual(got, final) {
		return violf("C15/write-result", "concurrent mode: after Write parent holds %v, wrapper showed %v", got, final)
	}
	total := 0
	for _, th := range p.Threads {
		total += len(th)
	}
	if total >= 6 {
		c.NonTrivial()
	}
	return nil
}

func fmtHist(h []porcupine.Operation) string {
	s := ""
	for _, o := range h {
		in := o.Input.(c15RegIn)
		out := o.Output.(c15RegOut)
		s += fmt.Sprintf("[c%d %s %x=%x -> (%x,%v) @%d-%d] ", o.ClientId, in.op, in.key, in.val, out.val, out.present, o.Call, o.Return)
	}
	return s
}

func init() {
	register(&PropDef{
		ID: "C15",
		Rule: "each case is a program over a stack of cache wrappers (depth<=4) on a MemDB adapter, an IAVL store, a prefix store or a cache multistore " +
			"(2-3 substores): get/has/set/del/drained iterators with generated bounds/iterators kept open across writes/write/wrap/discard on keys over {00,01,61,ff}^1..3 (slices with 0-8 bytes of spare poisoned capacity); " +
			"every result is compared with a stack-of-sorted-maps model, lower levels are re-read after every write/discard; 1 in 6 cases runs 2-4 goroutines on one wrapper " +
			"and checks per-key linearizability with porcupine - half of those under a harness-owned schedule (two threads in lock step; a read-through of the first is held inside the parent store while the " +
			"second's operation is started); non-trivial = a drained iterator whose range holds both a parent key shadowed by a delete and a cache-only key, " +
			"or nesting >=2 with a Write at an inner level, or a concurrent case with >=6 operations; distinctness = hash of the program",
		Gen:       genC15,
		New:       func() interface{} { return &c15Prog{} },
		Exec:      execC15,
		RecordCur: func(prog interface{}) bool { return len(prog.(*c15Prog).Threads) > 0 },
		Assum: []string{"a lower wrapper is only read, never written, while a higher one is alive", "Write/discard happen with no iterator open",
			"goroutine interleavings are sampled by the Go scheduler or forced at parent reads, not enumerated"},
	})
}
