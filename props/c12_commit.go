package props

// C12 — Commit is durable and versions are readable (store-level model over rootmulti + IAVL).
// C13 — A crash during Commit never corrupts the store (crash-point enumeration over the same
// generated histories).

import (
	"bytes"
	"encoding/binary"
	"fmt"
	"strings"

	"pgregory.net/rapid"

	"github.com/pokt-network/posmint/store/rootmulti"
	stypes "github.com/pokt-network/posmint/store/types"
)

type c12Write struct {
	St  int    `json:"st"`
	K   string `json:"k"`
	V   string `json:"v,omitempty"`
	Del bool   `json:"del,omitempty"`
}

type c12Block struct {
	Writes []c12Write `json:"w,omitempty"`
	TW     []kvPair   `json:"tw,omitempty"` // transient-store writes
	Reopen bool       `json:"reopen,omitempty"`
	Crash  bool       `json:"crash,omitempty"` // C13: enumerate every crash point of this block's commit
	// C12: after this block, open a fresh store object at the previous version (when the policy retains it)
	// and re-execute this block identically - what a node does when it restarts with the application one
	// block behind. Deeper rollbacks are not generated: with pruning, iavl v0.12.4 refuses them
	// ("Orphan expires before it comes alive"), and nothing in posmint performs one.
	Rollback int `json:"rollback,omitempty"`
	// C12: after this block, ask the LIVE store object for a version the policy has pruned (or a future one);
	// the refusal must leave the object exactly as it was
	ProbeRefused bool `json:"probe_refused,omitempty"`
	// C12: while this block's writes are still uncommitted, load the latest committed version on a copy of the LIVE
	// store object (what a height query / Context.PrevCtx does during block execution) and read it - there, and again
	// after this block's commit when the policy still retains that version
	View bool `json:"view,omitempty"`
}

type c12Prog struct {
	NStores    int        `json:"nstores"`
	KeepRecent int64      `json:"keep_recent"`
	KeepEvery  int64      `json:"keep_every"`
	Lazy       bool       `json:"lazy,omitempty"`
	Blocks     []c12Block `json:"blocks"`
	// C13, application level (c13_appcrash.go): a chain history executed on a whole node, and the block indices
	// whose Commit is interrupted at every durable write unit
	App     *hProg `json:"app,omitempty"`
	CrashAt []int  `json:"crash_at,omitempty"`
}

// ---------------------------------------------------------------------------------------------
// generator

func genC12Common(t *rapid.T, tier string, crash bool) *c12Prog {
	p := &c12Prog{}
	p.NStores = rapid.IntRange(1, 4).Draw(t, "nstores")
	switch rapid.IntRange(0, 5).Draw(t, "strategy") {
	case 0:
		p.KeepRecent, p.KeepEvery = 0, 0 // PruneEverything
	case 1:
		p.KeepRecent, p.KeepEvery = 0, 1 // PruneNothing
	case 2:
		p.KeepRecent, p.KeepEvery = 100, 10000 // PruneSyncable
	default:
		p.KeepRecent = rapid.SampledFrom([]int64{0, 1, 2, 5, 100}).Draw(t, "keeprecent")
		p.KeepEvery = rapid.SampledFrom([]int64{0, 1, 2, 3, 5, 10000}).Draw(t, "keepevery")
	}
	// lazy loading (rootmulti.SetLazyLoading) is not generated: no caller in posmint enables it and the
	// property's configuration space is the pruning options; see DESIGN.md §7 (observation L1).
	maxBlocks := 24
	if tier == "thorough" {
		maxBlocks = 60
	}
	if crash {
		maxBlocks = 14
	}
	minBlocks := rapid.SampledFrom([]int{1, 5, 10}).Draw(t, "minblocks")
	if !crash && rapid.IntRange(0, 7).Draw(t, "long") == 0 {
		// a long-running object: many commits without a reopen in between are common in production and rare in short histories
		minBlocks, maxBlocks = 34, 50
		if tier == "thorough" {
			maxBlocks = 90
		}
	}
	long := minBlocks >= 34
	var used []string
	p.Blocks = rapid.SliceOfN(rapid.Custom(func(t *rapid.T) c12Block {
		var b c12Block
		nw := rapid.IntRange(0, 5).Draw(t, "nw")
		for i := 0; i < nw; i++ {
			w := c12Write{St: rapid.IntRange(0, p.NStores-1).Draw(t, "st")}
			if len(used) > 0 && rapid.Bool().Draw(t, "reuse") {
				w.K = rapid.SampledFrom(used).Draw(t, "usedkey")
			} else {
				w.K = genKeyHex(t, "k", 1, 3)
				used = append(used, w.K)
			}
			if rapid.IntRange(0, 3).Draw(t, "del") == 0 {
				w.Del = true
			} else {
				w.V = genValHex(t, "v", true)
			}
			b.Writes = append(b.Writes, w)
		}
		if rapid.IntRange(0, 2).Draw(t, "tw") == 0 {
			b.TW = []kvPair{{K: genKeyHex(t, "tk", 1, 2), V: genValHex(t, "tv", false)}}
		}
		b.Reopen = rapid.IntRange(0, 5).Draw(t, "reopen") == 0
		if long {
			b.Reopen = rapid.IntRange(0, 39).Draw(t, "reopenlong") == 0
		}
		if crash {
			b.Crash = rapid.IntRange(0, 3).Draw(t, "crash") == 0
		} else if rapid.IntRange(0, 4).Draw(t, "hasrollback") == 0 {
			b.Rollback = 1
		}
		if !crash {
			b.ProbeRefused = rapid.IntRange(0, 5).Draw(t, "proberefused") == 0
			b.View = rapid.IntRange(0, 3).Draw(t, "view") == 0
		}
		return b
	}), minBlocks, maxBlocks).Draw(t, "blocks")
	if crash {
		// always interrupt at least the last commit
		p.Blocks[len(p.Blocks)-1].Crash = true
	}
	return p
}

func genC12(t *rapid.T, tier string) interface{} { return genC12Common(t, tier, false) }
func genC13(t *rapid.T, tier string) interface{} {
	if rapid.IntRange(0, 4).Draw(t, "applevel") == 0 {
		return genC13App(t, tier)
	}
	return genC12Common(t, tier, true)
}

// ---------------------------------------------------------------------------------------------
// system under test

type c12Sys struct {
	p    *c12Prog
	keys []stypes.StoreKey
	tkey *stypes.TransientStoreKey
}

func newC12Sys(p *c12Prog) *c12Sys {
	s := &c12Sys{p: p, tkey: stypes.NewTransientStoreKey("transient_t")}
	for i := 0; i < p.NStores; i++ {
		s.keys = append(s.keys, stypes.NewKVStoreKey(fmt.Sprintf("store%d", i)))
	}
	return s
}

// open builds a fresh multistore object over db (no state is shared with earlier objects).
func (s *c12Sys) open(db *crashDB) *rootmulti.Store {
	rs := rootmulti.NewStore(db)
	rs.SetPruning(stypes.NewPruningOptions(s.p.KeepRecent, s.p.KeepEvery))
	rs.SetLazyLoading(s.p.Lazy)
	for _, k := range s.keys {
		rs.MountStoreWithDB(k, stypes.StoreTypeIAVL, nil)
	}
	rs.MountStoreWithDB(s.tkey, stypes.StoreTypeTransient, nil)
	return rs
}

func (s *c12Sys) apply(rs *rootmulti.Store, b *c12Block, model []flatKV) {
	for _, w := range b.Writes {
		st := rs.GetKVStore(s.keys[w.St])
		k := unhex(w.K)
		if w.Del {
			st.Delete(k)
			if model != nil {
				delete(model[w.St], string(k))
			}
		} else {
			st.Set(k, unhex(w.V))
			if model != nil {
				model[w.St][string(k)] = unhex(w.V)
			}
		}
	}
	for _, kv := range b.TW {
		rs.GetKVStore(s.tkey).Set(unhex(kv.K), unhex(kv.V))
	}
}

func cloneModel(m []flatKV) []flatKV {
	out := make([]flatKV, len(m))
	for i := range m {
		out[i] = m[i].clone()
	}
	return out
}

// content compares every substore of rs with a snapshot.
func (s *c12Sys) content(rs *rootmulti.Store, snap []flatKV) (string, bool) {
	for i, k := range s.keys {
		got := dumpStore(rs.GetKVStore(k))
		if !flatEqual(got, snap[i]) {
			return fmt.Sprintf("store%d holds %v, committed snapshot %v", i, got, snap[i]), false
		}
	}
	return "", true
}

type c12History struct {
	snaps    map[int64][]flatKV
	hashes   map[int64][]byte
	retained map[int64]bool
	// C13: hashes and contents of the whole uninterrupted history (a separate run on its own database), used to
	// judge the blocks that follow a recovery
	refHashes map[int64][]byte
	refSnaps  map[int64][]flatKV
}

func (h *c12History) cloneUpTo() *c12History {
	n := &c12History{snaps: map[int64][]flatKV{}, hashes: map[int64][]byte{}, retained: map[int64]bool{}, refHashes: h.refHashes, refSnaps: h.refSnaps}
	for k, v := range h.snaps {
		n.snaps[k] = v
	}
	for k, v := range h.hashes {
		n.hashes[k] = v
	}
	for k, v := range h.retained {
		n.retained[k] = v
	}
	return n
}

// referenceRun executes the whole history without interruption on a database of its own.
func (s *c12Sys) referenceRun() (map[int64][]byte, map[int64][]flatKV, bool) {
	db := newCrashDB()
	rs := s.open(db)
	if rs.LoadLatestVersion() != nil {
		return nil, nil, false
	}
	model := make([]flatKV, s.p.NStores)
	for i := range model {
		model[i] = flatKV{}
	}
	hashes, snaps := map[int64][]byte{}, map[int64][]flatKV{}
	for bi := range s.p.Blocks {
		var cid stypes.CommitID
		if catch(func() { s.apply(rs, &s.p.Blocks[bi], model); cid = rs.Commit() }).panicked {
			return nil, nil, false
		}
		hashes[int64(bi+1)], snaps[int64(bi+1)] = cid.Hash, cloneModel(model)
	}
	return hashes, snaps, true
}

// retention rule as documented in C12's anchor: at commit V release V-1-keepRecent unless it is a
// multiple of keepEvery.
func (h *c12History) commit(v int64, p *c12Prog) {
	h.retained[v] = true
	prev := v - 1
	if p.KeepRecent < prev {
		rel := prev - p.KeepRecent
		if p.KeepEvery == 0 || rel%p.KeepEvery != 0 {
			delete(h.retained, rel)
		}
	}
}

// checkVersions: a fresh store must load exactly the retained versions, with the committed content and id.
func (s *c12Sys) checkVersions(db *crashDB, h *c12History, latest int64, when string) *Violation {
	for v := int64(1); v <= latest+1; v++ {
		rs := s.open(db)
		var err error
		res := catch(func() { err = rs.LoadVersion(v) })
		if res.panicked {
			return violf("C12/loadversion-panic", "%s: LoadVersion(%d) panicked: %v", when, v, res.pv)
		}
		if !h.retained[v] {
			if err == nil {
				// pruned or future version must be unreadable - never wrong data
				return violf("C12/pruned-version-readable", "%s: LoadVersion(%d) succeeded although the version is %s (keepRecent=%d keepEvery=%d latest=%d); LastCommitID=%v",
					when, v, map[bool]string{true: "in the future", false: "pruned by the policy"}[v > latest], s.p.KeepRecent, s.p.KeepEvery, latest, rs.LastCommitID())
			}
			continue
		}
		if err != nil {
			return violf("C12/retained-version-unreadable", "%s: LoadVersion(%d) failed for a version the policy retains (keepRecent=%d keepEvery=%d latest=%d): %v",
				when, v, s.p.KeepRecent, s.p.KeepEvery, latest, err)
		}
		cid := rs.LastCommitID()
		if cid.Version != v || !bytes.Equal(cid.Hash, h.hashes[v]) {
			return violf("C12/commit-id", "%s: LoadVersion(%d) reports commit id (%d,%X), Commit returned hash %X", when, v, cid.Version, cid.Hash, h.hashes[v])
		}
		if msg, ok := s.content(rs, h.snaps[v]); !ok {
			return violf("C12/content", "%s: after LoadVersion(%d): %s", when, v, msg)
		}
	}
	// the way the application reads history (queries at a height, previous-block contexts): a COPY of a store that
	// sits at the latest version is asked for each version; the original must not move
	live := s.open(db)
	if live.LoadLatestVersion() != nil {
		return nil
	}
	before := live.LastCommitID()
	for v := int64(1); v <= latest+1; v++ {
		var cp *rootmulti.Store
		var err error
		res := catch(func() {
			cp = (*live.CopyStore()).(*rootmulti.Store)
			err = cp.LoadVersion(v)
		})
		if res.panicked {
			return violf("C12/copystore-panic", "%s: CopyStore().LoadVersion(%d) panicked (retained=%v, keepRecent=%d keepEvery=%d latest=%d): %v", when, v, h.retained[v], s.p.KeepRecent, s.p.KeepEvery, latest, res.pv)
		}
		if !h.retained[v] {
			if err == nil {
				return violf("C12/pruned-version-readable", "%s: CopyStore().LoadVersion(%d) succeeded although the version is pruned or in the future (latest=%d)", when, v, latest)
			}
			continue
		}
		if err != nil {
			return violf("C12/retained-version-unreadable", "%s: CopyStore().LoadVersion(%d) failed for a version the policy retains (keepRecent=%d keepEvery=%d latest=%d): %v", when, v, s.p.KeepRecent, s.p.KeepEvery, latest, err)
		}
		if msg, ok := s.content(cp, h.snaps[v]); !ok {
			return violf("C12/content", "%s: after CopyStore().LoadVersion(%d): %s", when, v, msg)
		}
	}
	if after := live.LastCommitID(); after.Version != before.Version || !bytes.Equal(after.Hash, before.Hash) {
		return violf("C12/copy-moved-the-original", "%s: loading versions on a copy moved the original store from (%d,%X) to (%d,%X)", when, before.Version, before.Hash, after.Version, after.Hash)
	}
	return nil
}

func execC12(prog interface{}, c *Case) *Violation { return execC12C13(prog.(*c12Prog), c, false) }
func execC13(prog interface{}, c *Case) *Violation {
	if p := prog.(*c12Prog); p.App != nil {
		return execC13App(p, c)
	}
	return execC12C13(prog.(*c12Prog), c, true)
}

func execC12C13(p *c12Prog, c *Case, crashMode bool) *Violation {
	if p.NStores < 1 || p.NStores > 8 {
		return nil
	}
	s := newC12Sys(p)
	db := newCrashDB()
	rs := s.open(db)
	if err := rs.LoadLatestVersion(); err != nil {
		return violf("C12/load-empty", "LoadLatestVersion on an empty database: %v", err)
	}
	model := make([]flatKV, p.NStores)
	for i := range model {
		model[i] = flatKV{}
	}
	h := &c12History{snaps: map[int64][]flatKV{}, hashes: map[int64][]byte{}, retained: map[int64]bool{}}
	if crashMode {
		if rh, rsn, ok := s.referenceRun(); ok {
			h.refHashes, h.refSnaps = rh, rsn
		}
	}
	c.Labelf("keepRecent=%d keepEvery=%d", p.KeepRecent, p.KeepEvery)
	prunedSeen, retainedOld, reopenAfterDelete, deleted := false, false, false, false
	replayed, replayedPruning := 0, false
	probes, views, viewsAfter, oldViews := 0, 0, 0, 0
	crashInside2, crashAfterPrune := false, false

	for bi := range p.Blocks {
		b := &p.Blocks[bi]
		height := int64(bi + 1)

		var durable *crashDB
		if crashMode && b.Crash {
			durable = db.clone()
		}
		s.apply(rs, b, model)
		for _, w := range b.Writes {
			if w.Del {
				deleted = true
			}
		}
		var view *rootmulti.Store
		if !crashMode && b.View && height > 1 {
			prev := height - 1
			var err error
			res := catch(func() {
				view = (*rs.CopyStore()).(*rootmulti.Store)
				err = view.LoadVersion(prev)
			})
			if res.panicked || err != nil {
				return violf("C12/retained-version-unreadable", "during block %d: CopyStore().LoadVersion(%d) of the latest committed version failed: err=%v panic=%v", height, prev, err, res.pv)
			}
			if msg, ok := s.content(view, h.snaps[prev]); !ok {
				return violf("C12/view-of-committed-version-shows-other-data", "during block %d (writes applied, not committed): a copy of the live store loaded at version %d: %s", height, prev, msg)
			}
			if msg, ok := s.content(rs, model); !ok {
				return violf("C12/copy-moved-the-original", "during block %d: loading version %d on a copy changed what the live store shows: %s", height, prev, msg)
			}
			// ... and every older version, asked of copies of the same long-running object (whatever that object has
			// come to remember about its past commits): retained => exactly that version, released => refused
			for v := int64(1); v < prev; v++ {
				var cp *rootmulti.Store
				var err error
				res := catch(func() {
					cp = (*rs.CopyStore()).(*rootmulti.Store)
					err = cp.LoadVersion(v)
				})
				if res.panicked {
					return violf("C12/copystore-panic", "during block %d: CopyStore().LoadVersion(%d) on the running store panicked: %v", height, v, res.pv)
				}
				if !h.retained[v] {
					if err == nil {
						return violf("C12/pruned-version-readable", "during block %d: CopyStore().LoadVersion(%d) on the running store succeeded although the version is pruned (keepRecent=%d keepEvery=%d)", height, v, p.KeepRecent, p.KeepEvery)
					}
					continue
				}
				if err != nil {
					return violf("C12/retained-version-unreadable", "during block %d: CopyStore().LoadVersion(%d) on the running store failed for a retained version (keepRecent=%d keepEvery=%d): %v", height, v, p.KeepRecent, p.KeepEvery, err)
				}
				if lc := cp.LastCommitID(); lc.Version != v || !bytes.Equal(lc.Hash, h.hashes[v]) {
					return violf("C12/commit-id", "during block %d: a copy of the running store loaded at version %d reports commit id (%d,%X), version %d was committed as %X", height, v, lc.Version, lc.Hash, v, h.hashes[v])
				}
				if msg, ok := s.content(cp, h.snaps[v]); !ok {
					return violf("C12/content", "during block %d: a copy of the running store loaded at version %d: %s", height, v, msg)
				}
				oldViews++
			}
			views++
		}
		if crashMode && b.Crash {
			db.startLog()
		}
		var cid stypes.CommitID
		res := catch(func() { cid = rs.Commit() })
		if res.panicked {
			return violf("C12/commit-panic", "Commit of version %d panicked: %v", height, res.pv)
		}
		var units []crashUnit
		if crashMode && b.Crash {
			units = db.stopLog()
		}
		if cid.Version != height {
			return violf("C12/version-step", "Commit #%d returned version %d", height, cid.Version)
		}
		if lc := rs.LastCommitID(); lc.Version != cid.Version || !bytes.Equal(lc.Hash, cid.Hash) {
			return violf("C12/commit-id", "LastCommitID %v differs from the id returned by Commit %v", lc, cid)
		}
		if tv := dumpStore(rs.GetKVStore(s.tkey)); len(tv) != 0 {
			return violf("C12/transient-not-empty", "transient store holds %v after commit %d", tv, height)
		}
		h.snaps[height] = cloneModel(model)
		h.hashes[height] = cid.Hash
		h.commit(height, p)
		if msg, ok := s.content(rs, model); !ok {
			return violf("C12/content", "after commit %d (same object): %s", height, msg)
		}
		if view != nil && h.retained[height-1] {
			var msg string
			ok := true
			res := catch(func() { msg, ok = s.content(view, h.snaps[height-1]) })
			if res.panicked {
				return violf("C12/retained-version-unreadable", "a view of version %d taken during block %d panics after commit %d although the policy retains that version (keepRecent=%d keepEvery=%d): %v", height-1, height, height, p.KeepRecent, p.KeepEvery, res.pv)
			}
			if !ok {
				return violf("C12/view-of-committed-version-shows-other-data", "a view of version %d taken during block %d, read after commit %d: %s", height-1, height, height, msg)
			}
			viewsAfter++
		}

		if crashMode && b.Crash {
			in2, afterPrune, v := s.enumerateCrashes(c, durable, b, height, h, units)
			if v != nil {
				return v
			}
			crashInside2 = crashInside2 || in2
			crashAfterPrune = crashAfterPrune || afterPrune
		}

		if b.Reopen || bi == len(p.Blocks)-1 {
			rs = s.open(db)
			var err error
			res := catch(func() { err = rs.LoadLatestVersion() })
			if res.panicked || err != nil {
				return violf("C12/reopen-failed", "reopen after commit %d: err=%v panic=%v", height, err, res.pv)
			}
			if lc := rs.LastCommitID(); lc.Version != height || !bytes.Equal(lc.Hash, cid.Hash) {
				return violf("C12/commit-id", "reopened store reports (%d,%X), Commit returned (%d,%X)", lc.Version, lc.Hash, height, cid.Hash)
			}
			if msg, ok := s.content(rs, model); !ok {
				return violf("C12/content", "after reopen at %d: %s", height, msg)
			}
			if tv := dumpStore(rs.GetKVStore(s.tkey)); len(tv) != 0 {
				return violf("C12/transient-not-empty", "transient store holds %v after reopen", tv)
			}
			if deleted {
				reopenAfterDelete = true
			}
			if !crashMode || bi == len(p.Blocks)-1 {
				if v := s.checkVersions(db, h, height, fmt.Sprintf("at height %d", height)); v != nil {
					return v
				}
			}
			for v := int64(1); v < height; v++ {
				if h.retained[v] {
					retainedOld = true
				} else {
					prunedSeen = true
				}
			}
		}

		if !crashMode && b.ProbeRefused {
			// the most recent pruned version, else the first future one
			target := height + 1
			for v := height - 1; v >= 1; v-- {
				if !h.retained[v] {
					target = v
					break
				}
			}
			var err error
			res := catch(func() { err = rs.LoadVersion(target) })
			if res.panicked {
				return violf("C12/loadversion-panic", "live store at %d: LoadVersion(%d) panicked: %v", height, target, res.pv)
			}
			if err == nil {
				return violf("C12/pruned-version-readable", "live store at %d: LoadVersion(%d) succeeded although that version is pruned or in the future (keepRecent=%d keepEvery=%d)", height, target, p.KeepRecent, p.KeepEvery)
			}
			if lc := rs.LastCommitID(); lc.Version != height || !bytes.Equal(lc.Hash, cid.Hash) {
				return violf("C12/refused-load-changed-the-store", "live store at version %d: LoadVersion(%d) was refused (%v) but the store now reports commit id (%d,%X) instead of (%d,%X)",
					height, target, err, lc.Version, lc.Hash, height, cid.Hash)
			}
			if msg, ok := s.content(rs, model); !ok {
				return violf("C12/refused-load-changed-the-store", "live store at version %d: LoadVersion(%d) was refused (%v) but the content changed: %s", height, target, err, msg)
			}
			probes++
		}

		if !crashMode && b.Rollback > 0 {
			target := height - 1
			if target > 0 && h.retained[target] {
				rs2 := s.open(db)
				var err error
				res := catch(func() { err = rs2.LoadVersion(target) })
				if res.panicked || err != nil {
					return violf("C12/retained-version-unreadable", "rollback at height %d: LoadVersion(%d) of a retained version failed: err=%v panic=%v", height, target, err, res.pv)
				}
				m2 := cloneModel(h.snaps[target])
				for j := target; j < height; j++ {
					s.apply(rs2, &p.Blocks[j], m2)
					var cid2 stypes.CommitID
					res := catch(func() { cid2 = rs2.Commit() })
					if res.panicked {
						return violf("C12/replay-commit-panic", "store reloaded at retained version %d (latest %d, keepRecent=%d keepEvery=%d): re-executing block %d identically, Commit panicked: %v",
							target, height, p.KeepRecent, p.KeepEvery, j+1, res.pv)
					}
					if cid2.Version != j+1 || !bytes.Equal(cid2.Hash, h.hashes[j+1]) {
						return violf("C12/replay-commit-id", "store reloaded at retained version %d: re-executing block %d identically returned (%d,%X); the first execution returned (%d,%X)",
							target, j+1, cid2.Version, cid2.Hash, j+1, h.hashes[j+1])
					}
					replayed++
					if p.KeepRecent < j && (p.KeepEvery == 0 || (j-p.KeepRecent)%p.KeepEvery != 0) {
						replayedPruning = true // this commit's pruning rule names a version that is already gone
					}
				}
				if msg, ok := s.content(rs2, model); !ok {
					return violf("C12/content", "after rollback to %d and identical re-execution up to %d: %s", target, height, msg)
				}
				rs = rs2
				if v := s.checkVersions(db, h, height, fmt.Sprintf("after rollback to %d and re-execution up to %d", target, height)); v != nil {
					return v
				}
			}
		}
	}
	if crashMode {
		if crashInside2 {
			c.Label("crash-inside-with-2-stores-changed")
		}
		if crashAfterPrune {
			c.Label("crash-after-a-pruning-delete")
		}
		return nil
	}
	if prunedSeen && retainedOld && reopenAfterDelete {
		c.NonTrivial()
	}
	if prunedSeen {
		c.Label("has-pruned-version")
	}
	if retainedOld {
		c.Label("has-retained-old-version")
	}
	if reopenAfterDelete {
		c.Label("reopen-after-delete")
	}
	if replayed > 0 {
		c.Label("rollback-and-replay")
	}
	if probes > 0 {
		c.Label("refused-load-on-the-live-store")
	}
	if views > 0 {
		c.Label("view-of-latest-version-during-a-block")
	}
	if viewsAfter > 0 {
		c.Label("view-read-again-after-the-next-commit")
	}
	if oldViews > 0 {
		c.Label("older-versions-read-through-copies-of-the-running-store")
	}
	if len(p.Blocks) > 32 {
		c.Label("more-than-32-commits-by-one-object")
	}
	if replayedPruning {
		c.Label("replayed-commit-prunes-an-already-released-version")
	}
	return nil
}

// iavlRootKey is the raw DB key under which store `name` records the root of `version`
// (rootmulti prefix "s/k:<name>/" + iavl root key 'r' + big-endian version).
func iavlRootKey(name string, version int64) string {
	var b [8]byte
	binary.BigEndian.PutUint64(b[:], uint64(version))
	return "s/k:" + name + "/r" + string(b[:])
}

// enumerateCrashes: for every crash point k of the commit of `height`, kill the process after k
// durable units, reopen, and check all-or-nothing + replay.
func (s *c12Sys) enumerateCrashes(c *Case, durable *crashDB, b *c12Block, height int64, h *c12History, units []crashUnit) (inside2, afterPrune bool, v *Violation) {
	W := len(units)
	changed := map[int]bool{}
	for _, w := range b.Writes {
		changed[w.St] = true
	}
	progKey := fmt.Sprintf("%d/%d/%d/%v", s.p.NStores, s.p.KeepRecent, s.p.KeepEvery, s.p.Blocks)
	for k := 0; k <= W; k++ {
		dbk := durable.clone()
		rsk := s.open(dbk)
		if err := rsk.LoadLatestVersion(); err != nil {
			return false, false, violf("C13/harness", "cannot open the pre-crash database at %d: %v", height-1, err)
		}
		dbk.armCrash(k)
		dbk.keepLog, dbk.log = true, nil
		// the doomed run: whatever it does after the k-th unit never reaches the disk. The order in which
		// substores commit is Go map order (rootmulti.commitStores), so each k sees one sampled order.
		_ = catch(func() { s.apply(rsk, b, nil); rsk.Commit() })
		admitted := dbk.stopLog()
		dbk.revive()
		// what reached the disk before the crash
		prunedLastFlushed, prunedAny := false, false
		for _, u := range admitted {
			for _, d := range u.Deletes {
				for si := range s.keys {
					name := s.keys[si].Name()
					if strings.HasPrefix(d, "s/k:"+name+"/r") {
						prunedAny = true
					}
					if d == iavlRootKey(name, height-1) {
						prunedLastFlushed = true
					}
				}
			}
		}

		nt := k > 0 && k < W && len(changed) >= 2
		ntPrune := prunedAny && k < W
		c.Eval(fmt.Sprintf("%s h%d k%d/%d", progKey, height, k, W), nt || ntPrune)
		inside2 = inside2 || nt
		afterPrune = afterPrune || ntPrune

		rs2 := s.open(dbk)
		var err error
		res := catch(func() { err = rs2.LoadLatestVersion() })
		if res.panicked || err != nil {
			sig := "C13/reopen-fails-after-crash"
			if prunedLastFlushed && k < W && !h.retained[height-1] {
				// known finding #9: the version the commit info still points at was pruned - as the configured policy
				// asks at this commit - before the flush (a deletion the policy does not ask for is not that finding)
				sig = "C13/reopen-fails-after-crash/last-flushed-version-pruned-before-flush"
				if c.Known(sig) {
					continue
				}
			}
			return inside2, afterPrune, violf(sig, "crash after %d of %d durable write units of commit %d (keepRecent=%d keepEvery=%d, %d stores): reopen fails: err=%v panic=%v",
				k, W, height, s.p.KeepRecent, s.p.KeepEvery, s.p.NStores, err, res.pv)
		}
		ver := rs2.LastCommitID().Version
		// known finding: a crash inside the very first commit leaves substore versions on disk that the
		// version-0 load path (no commit info) picks up: mixed content, and a diverging hash on replay
		firstCommitPartial := height == 1 && k > 0 && k < W
		firstSig := "C13/first-commit/substore-data-visible-without-commit-info"
		if ver != height-1 && ver != height {
			return inside2, afterPrune, violf("C13/version-after-crash", "crash after %d/%d units of commit %d: reopened at version %d", k, W, height, ver)
		}
		if ver == height && k < W {
			return inside2, afterPrune, violf("C13/new-version-visible-early", "crash after %d/%d units of commit %d: the new version is visible before the final flush", k, W, height)
		}
		if ver >= 1 {
			if !bytes.Equal(rs2.LastCommitID().Hash, h.hashes[ver]) {
				return inside2, afterPrune, violf("C13/hash-after-crash", "crash after %d/%d units of commit %d: reopened at %d with hash %X, committed hash %X", k, W, height, ver, rs2.LastCommitID().Hash, h.hashes[ver])
			}
			if msg, ok := s.content(rs2, h.snaps[ver]); !ok {
				return inside2, afterPrune, violf("C13/mixed-content-after-crash", "crash after %d/%d units of commit %d: reopened at %d but %s", k, W, height, ver, msg)
			}
		} else {
			mixed := ""
			for i, sk := range s.keys {
				if got := dumpStore(rs2.GetKVStore(sk)); len(got) != 0 {
					mixed = fmt.Sprintf("store%d holds %v", i, got)
				}
			}
			if mixed != "" {
				if firstCommitPartial && c.Known(firstSig) {
					continue
				}
				sig := "C13/mixed-content-after-crash"
				if firstCommitPartial {
					sig = firstSig
				}
				return inside2, afterPrune, violf(sig, "crash after %d/%d units of the first commit: reopened at version 0 but %s", k, W, mixed)
			}
		}
		if ver == height-1 {
			var cid stypes.CommitID
			res := catch(func() { s.apply(rs2, b, nil); cid = rs2.Commit() })
			if res.panicked {
				return inside2, afterPrune, violf("C13/replay-fails", "crash after %d/%d units of commit %d: re-executing the block panics: %v", k, W, height, res.pv)
			}
			if (cid.Version != height || !bytes.Equal(cid.Hash, h.hashes[height])) && firstCommitPartial && c.Known(firstSig) {
				continue
			}
			if cid.Version != height || !bytes.Equal(cid.Hash, h.hashes[height]) {
				if firstCommitPartial {
					return inside2, afterPrune, violf(firstSig, "crash after %d/%d units of the first commit: replay gives (%d,%X), uninterrupted run (%d,%X)", k, W, cid.Version, cid.Hash, height, h.hashes[height])
				}
				return inside2, afterPrune, violf("C13/replay-hash", "crash after %d/%d units of commit %d: replay gives (%d,%X), uninterrupted run (%d,%X)", k, W, height, cid.Version, cid.Hash, height, h.hashes[height])
			}
		}
		// life goes on after the recovery: the next blocks (up to two) must commit to the hashes of the uninterrupted
		// history, on top of whatever the interrupted commit left in the database
		hk, last := h, height
		if h.refHashes != nil && !(firstCommitPartial && knownSigs()[firstSig]) {
			hk = h.cloneUpTo()
			for j := height + 1; j <= height+2 && int(j) <= len(s.p.Blocks); j++ {
				var cid stypes.CommitID
				res := catch(func() { s.apply(rs2, &s.p.Blocks[j-1], nil); cid = rs2.Commit() })
				if res.panicked {
					return inside2, afterPrune, violf("C13/continuation-fails", "crash after %d/%d units of commit %d, recovered; committing block %d afterwards panics: %v", k, W, height, j, res.pv)
				}
				if cid.Version != j || !bytes.Equal(cid.Hash, h.refHashes[j]) {
					return inside2, afterPrune, violf("C13/continuation-hash", "crash after %d/%d units of commit %d, recovered; block %d afterwards commits to (%d,%X), the uninterrupted history to (%d,%X)", k, W, height, j, cid.Version, cid.Hash, j, h.refHashes[j])
				}
				hk.snaps[j], hk.hashes[j] = h.refSnaps[j], h.refHashes[j]
				hk.commit(j, s.p)
				last = j
				c.Label("blocks-committed-after-recovery")
			}
		}
		// afterwards every retained version is still readable and pruned ones are not
		if v := s.checkVersions(dbk, hk, last, fmt.Sprintf("after crash %d/%d of commit %d, replay and %d more block(s)", k, W, height, last-height)); v != nil {
			v.Sig = strings.Replace(v.Sig, "C12/", "C13/after-replay/", 1)
			return inside2, afterPrune, v
		}
	}
	return inside2, afterPrune, nil
}

func init() {
	rule12 := "each case is a history of 1-24 (thorough 60) commits over 1-4 IAVL stores + one transient store with a pruning policy (the three named strategies or " +
		"keepRecent in {0,1,2,5,100} x keepEvery in {0,1,2,3,5,10000}), eager loading, per-block sets/overwrites/deletes (keys reused across blocks), transient writes, reopen points and (1 block in 5) a restart one block behind: LoadVersion(h-1) when retained, " +
		"then the block re-executed identically must commit without panic to the same id; (1 block in 6) a LoadVersion of a pruned/future version on the live object must be refused and leave it unchanged; " +
		"(1 block in 4) while the block's writes are uncommitted a copy of the live store is loaded at the latest committed version: it must show that version's content, leave the live store alone, and show it again after the commit when still retained, " +
		"and copies of that same running object are asked for every older version (retained => that version's id and content, released => refused); 1 history in 8 has 34-50 (thorough 90) commits with rare reopens; " +
		"after every commit: version step, commit id, content, transient store empty; at every reopen and at the end a fresh store loads every version in [1,latest+1]: retained => committed content " +
		"and id, pruned/future => error. Non-trivial = the history has a pruned version, a retained non-latest version and a reopen after a delete; distinctness = hash of the program"
	register(&PropDef{ID: "C12", Rule: rule12, Gen: genC12, New: func() interface{} { return &c12Prog{} }, Exec: execC12,
		Assum: []string{"retention model is the documented rule: at commit V release V-1-keepRecent unless it is a multiple of keepEvery", "StoreTypeDB mounts are not generated", "target version 0 is not generated"}})
	register(&PropDef{ID: "C13",
		Rule: "histories as in C12 (<=14 commits); for each commit marked for interruption (always the last one) the durable write units it issues are counted on a dry run (W) and EVERY crash point k in [0,W] " +
			"is executed: clone the database as of the previous commit, run the block and Commit with units k.. dropped, discard the object, reopen: LoadLatestVersion succeeds, version is old or new, " +
			"hash and full content of every store equal that version's, replaying the block gives the uninterrupted hash, and all retained versions load afterwards. One evaluation = one (history, commit, k); " +
			"non-trivial = 0<k<W with >=2 stores changed in the block, or k after a pruning delete; distinctness = hash of (height, k, unit log). One case in five is an application-level history instead " +
			"(2-8 blocks, thorough 14, of transactions, evidence, absences, custom/store queries and CheckTx/simulate traffic on a whole node over the instrumented database, pruning keepRecent in {0,1,5,100} x " +
			"keepEvery in {0,1,3,10000}): for the last commit and up to two earlier ones (never the first) the Commit's write units are logged with their values, every prefix k in [0,W] is applied to a clone of " +
			"the pre-commit database and a NEW application is opened on it: it loads, reports the old or (k=W only) the new height with that height's app hash, and re-executing the interrupted block gives the " +
			"uninterrupted DeliverTx codes and app hash; one evaluation = one (history, block, k), non-trivial = 0<k<W",
		Gen: genC13, New: func() interface{} { return &c12Prog{} }, Exec: execC13,
		Assum: []string{"a batch write is atomic and durable once issued (LevelDB contract); crash = process death, not media loss",
			"crash points are the boundaries between durable write units (batch writes and direct sets/deletes) seen by the database"}})
}
