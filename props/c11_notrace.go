package props

// C11 — Rejected transactions and read-only calls leave no trace.

import (
	"encoding/hex"
	"fmt"
	sdk "github.com/pokt-network/posmint/types"
	authexported "github.com/pokt-network/posmint/x/auth/exported"

	"pgregory.net/rapid"

	authtypes "github.com/pokt-network/posmint/x/auth/types"
)

type c11Oracle struct {
	c        *Case
	nt       bool
	rejected int
	aborted  bool
}

func (o *c11Oracle) after(ch *chain, ci *callInfo) *Violation {
	where := fmt.Sprintf("%s at height %d (block %d tx %d)", ci.Kind, ci.Height, ci.BlockIx, ci.TxIx)
	if ci.Panic != nil {
		if ci.Kind == "query" {
			// the statement only requires that a query never changes state; a query that panics (e.g. a custom
			// query before the first commit) is not asserted to succeed
			o.c.Label("query-panicked:" + panicClass(ci.Panic))
			if diff := rawDiff(ci.Before, ch.app.view()); diff != "" {
				return violf("C11/query-changed-state", "%s: a panicking query changed the state: %s", where, diff)
			}
			ci.Panic = nil // the history goes on
			return nil
		}
		switch ci.Kind {
		case "tx", "check", "simulate":
			// no panic may escape these entry points: the process must keep running
			desc := ""
			if ci.Tx != nil {
				desc = fmt.Sprintf(" (tx kind %s, %d bytes %x...)", ci.Tx.Kind, len(ci.TxBytes), head(ci.TxBytes, 24))
			}
			return violf("C11/panic-escapes-"+ci.Kind+": "+panicClass(ci.Panic), "%s%s: %s", where, desc, firstLines(fmt.Sprint(ci.Panic), 8))
		}
		o.aborted = true
		o.c.Label("panic:" + ci.Kind + ":" + panicClass(ci.Panic))
		return nil
	}
	before, after := ci.Before, ci.After
	switch ci.Kind {
	case "check", "simulate", "query":
		if diff := rawDiff(before, after); diff != "" {
			desc := ci.Kind
			if ci.Tx != nil {
				desc += " of a " + ci.Tx.Kind + " tx"
			}
			return violf("C11/"+ci.Kind+"-changed-state", "%s: %s changed the state: %s", where, desc, diff)
		}
		if ci.Kind == "simulate" || (ci.Kind == "query") {
			o.nt = true
		}
	case "tx":
		if ci.Deliver.Code == 0 {
			return nil
		}
		o.rejected++
		keys := rawDiffKeys(before, after)
		if len(keys) == 0 {
			return nil
		}
		// a transaction the harness knows to be forged (signed content changed afterwards, signature altered)
		// cannot have passed the ante handler: not even its fee may be gone
		if ci.Built != nil && ci.Built.Constructed && (ci.Built.ContentChanged || ci.Built.SigChanged) {
			return violf("C11/forged-tx-changed-state", "%s: a transaction whose signed content or signature was altered after signing (mutation %q) was rejected with code %d but changed the state: %s",
				where, ci.Tx.Mut, ci.Deliver.Code, rawDiff(before, after))
		}
		// the only trace allowed: a transaction that passed the ante handler has paid its fee
		feeAddr := authtypes.NewModuleAddress(authtypes.FeeCollectorName)
		collectorDelta := after.coinsOf(feeAddr).Sub(before.coinsOf(feeAddr))
		// what the delivered bytes themselves say (byte-level and structural mutants may still be well-formed)
		var msg sdk.Msg
		var feeCoins sdk.Coins
		if ci.Built != nil && ci.Built.Msg != nil {
			msg, feeCoins = ci.Built.Msg, ci.Built.Fee
		} else {
			var std authtypes.StdTx
			if simCdc.UnmarshalBinaryLengthPrefixed(ci.TxBytes, &std) == nil && std.Msg != nil {
				msg, feeCoins = std.Msg, std.Fee
			}
		}
		if msg == nil || !collectorDelta.IsPositive() {
			return violf("C11/rejected-tx-changed-state", "%s: DeliverTx code %d (%s) did not pay a fee but changed the state: %s", where, ci.Deliver.Code, firstLines(ci.Deliver.Log, 2), rawDiff(before, after))
		}
		var signer sdk.Address
		if res := catch(func() { signer = msg.GetSigner() }); res.panicked {
			return violf("C11/rejected-tx-changed-state", "%s: DeliverTx code %d changed the state although the message cannot even name its signer: %s", where, ci.Deliver.Code, rawDiff(before, after))
		}
		fee := feeCoins.AmountOf("upokt")
		for _, k := range keys {
			isSigner := k[0] == ch.app.keyAuth.Name() && k[1] == string(append([]byte{0x01}, signer...))
			if isSigner {
				// only the balance of the signer's account may differ (not its key, type or address)
				if b, a := accountSansCoins(before.Raw[k[0]][k[1]]), accountSansCoins(after.Raw[k[0]][k[1]]); b != a {
					return violf("C11/failed-handler-left-writes", "%s: %s tx failed with code %d after paying its fee, but the signer's account record changed beyond its balance: %s -> %s",
						where, ci.Tx.Kind, ci.Deliver.Code, b, a)
				}
			}
			isCollector := k[0] == ch.app.keyAuth.Name() && k[1] == string(append([]byte{0x01}, feeAddr...))
			if !isSigner && !isCollector {
				return violf("C11/failed-handler-left-writes", "%s: %s tx failed with code %d (%s) after paying its fee, but besides the fee it changed %s[%x]; all changes: %s",
					where, ci.Tx.Kind, ci.Deliver.Code, firstLines(ci.Deliver.Log, 2), k[0], k[1], rawDiff(before, after))
			}
		}
		if !collectorDelta.Equal(fee) || !before.coinsOf(signer).Sub(after.coinsOf(signer)).Equal(fee) {
			if hex.EncodeToString(signer) != hex.EncodeToString(feeAddr) {
				return violf("C11/failed-tx-fee-amount", "%s: failed tx with fee %s moved %s into the collector and %s out of the signer", where, fee, collectorDelta, before.coinsOf(signer).Sub(after.coinsOf(signer)))
			}
		}
		o.nt = true // ante-accepted, handler-level failure
	}
	return nil
}

// accountSansCoins renders a stored account record without its coins
func accountSansCoins(raw []byte) string {
	var acc authexported.Account
	if len(raw) == 0 || simCdc.UnmarshalBinaryBare(raw, &acc) != nil || acc == nil {
		return fmt.Sprintf("undecodable:%x", raw)
	}
	pk := ""
	if acc.GetPubKey() != nil {
		pk = hex.EncodeToString(acc.GetPubKey().RawBytes())
	}
	extra := ""
	if m, ok := acc.(*authtypes.ModuleAccount); ok {
		extra = fmt.Sprintf(" module=%s perms=%v", m.Name, m.Permissions)
	}
	return fmt.Sprintf("%T addr=%x pubkey=%s%s", acc, acc.GetAddress(), pk, extra)
}

func head(b []byte, n int) []byte {
	if len(b) > n {
		return b[:n]
	}
	return b
}

func genC11(t *rapid.T, tier string) interface{} {
	pr := &histProfile{OwnerBias: 2, GovHandover: true, HugeBalances: true, MaxBlocks: 10, MinBlocksOf: []int{1, 4, 8}, MaxTxs: 8, Evidence: 8, Missed: 4, Restart: 0, Queries: true,
		TxKinds: []string{"send", "send", "stake", "stake", "unstake", "unjail", "unjail", "award", "burn", "param", "param", "dao", "dao", "upgrade", "raw", "rawmut", "rawmut", "structmut", "structmut", "structmut"},
		Modes:   []string{"", "", "", "", "check", "recheck", "simulate", "simulate"}, WrongSigner: 10, Mutations: []string{"sigflip", "amount", "memo", "sigpartial"}}
	if tier == "thorough" {
		pr.MaxBlocks = 24
	}
	return genHistory(t, pr)
}

func execC11(prog interface{}, c *Case) *Violation {
	ch, v := newChain(prog.(*hProg), c)
	if v != nil || ch == nil {
		return v
	}
	o := &c11Oracle{c: c}
	if v := ch.run(o); v != nil {
		return v
	}
	if o.aborted {
		c.Label("aborted-by-panic")
	}
	if o.rejected > 0 {
		c.Label("has-rejected-tx")
	}
	if o.nt {
		c.NonTrivial()
	}
	return nil
}

func init() {
	register(&PropDef{ID: "C11",
		Rule: "chain histories whose transactions are random byte strings, valid signed transactions truncated / bit-flipped / spliced / with a broken length prefix, and well-formed transactions of every " +
			"bundled message engineered to fail (already staked, below minimum, overdraft, unknown / not staked / jailed validator, every unjail refusal, zero / self / over-balance sends, non-owner or " +
			"unknown or malformed parameter changes, unknown DAO action, DAO overdraft, negative amounts, non-owner upgrade) at any position in a block, interleaved with CheckTx, /app/simulate and store / " +
			"custom / unknown queries; byte-for-byte dump of all stores before and after every call: non-zero DeliverTx code => unchanged, or only signer -fee and fee collector +fee when the ante handler " +
			"accepted; CheckTx/Simulate/Query => unchanged; no panic may escape DeliverTx/CheckTx/Query. Non-trivial = a rejected transaction that had passed the ante handler, or a Simulate/Query call; " +
			"distinctness = hash of the program",
		Gen: genC11, New: func() interface{} { return &hProg{} }, Exec: execC11, RecordCur: func(interface{}) bool { return true },
		Assum: []string{"the transient params store is not part of the dump (it is reset at every commit)", "governance messages from the legitimate owner with malformed values return code 0 and are not 'rejected'"}})
}
