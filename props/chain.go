package props

// Chain driver: interprets a history program (genesis + blocks of votes, evidence and transactions)
// against a SimApp through the ABCI surface, mirrors Tendermint's validator set with its real delay,
// and calls the property's oracle after every ABCI call with views of the state before and after.

import (
	"bytes"
	"encoding/hex"
	"fmt"
	"os"
	"regexp"
	"sort"
	"strings"
	"time"

	abci "github.com/tendermint/tendermint/abci/types"
	tmtypes "github.com/tendermint/tendermint/types"

	stypes "github.com/pokt-network/posmint/store/types"
	sdk "github.com/pokt-network/posmint/types"
	authtypes "github.com/pokt-network/posmint/x/auth/types"
	govtypes "github.com/pokt-network/posmint/x/gov/types"
	postypes "github.com/pokt-network/posmint/x/pos/types"
)

// ---------------------------------------------------------------------------------------------
// program

type hGenVal struct {
	Key   int   `json:"key"`
	Stake int64 `json:"stake"`
}

type hGenAcc struct {
	Key     int   `json:"key"`
	Balance int64 `json:"bal"`
	Dust    int64 `json:"dust,omitempty"`  // balance in a second denomination ("dust"): fees may name any denomination
	NoPub   bool  `json:"nopub,omitempty"` // account stored without a public key
	// PubOf-1 is the key index whose public key is stored on this account instead of its own (0 = its own): a
	// genesis document may register any key under any address
	PubOf int `json:"pub_of,omitempty"`
}

type hFeeMulti struct {
	Key  string `json:"key"`
	Mult int64  `json:"mult"`
}

// maxGas: the block gas limit handed over at InitChain (-1 = none, the default)
func (g *hGenesis) maxGas() int64 {
	if g.MaxGas > 0 {
		return g.MaxGas
	}
	return -1
}

type hGenesis struct {
	// MaxGas > 0: the chain starts with a block gas limit (consensus parameter). Only the differential check C01
	// draws it: once a block is out of gas every later transaction is refused, which the models of the other
	// properties do not describe.
	MaxGas     int64     `json:"max_gas,omitempty"`
	Seed       int       `json:"seed"`
	Validators []hGenVal `json:"validators"`
	Accounts   []hGenAcc `json:"accounts"`
	// pos params
	UnstakingSec   int64  `json:"unstaking_sec"`
	MaxValidators  uint64 `json:"max_validators"`
	StakeMinimum   int64  `json:"stake_min"`
	MaxEvidenceSec int64  `json:"max_evidence_sec"`
	Window         int64  `json:"window"`
	MinSigned      string `json:"min_signed"`
	JailSec        int64  `json:"jail_sec"`
	SlashDS        string `json:"slash_ds"`
	SlashDT        string `json:"slash_dt"`
	// auth params
	MaxMemo    uint64      `json:"max_memo"`
	TxSigLimit uint64      `json:"tx_sig_limit"`
	FeeMultis  []hFeeMulti `json:"fee_multis,omitempty"`
	FeeDefault int64       `json:"fee_default"`
	// gov
	ACLOwners []int `json:"acl_owners"` // owner key index per parameter (simParamKeys order), cycled
	DAOOwner  int   `json:"dao_owner"`
	DAOTokens int64 `json:"dao_tokens"`
	// extra pos genesis map entries (signing infos / missed blocks for foreign addresses)
	ExtraSigning int   `json:"extra_signing,omitempty"`
	KeepRecent   int64 `json:"keep_recent"`
	KeepEvery    int64 `json:"keep_every"`
	// module accounts are not created at genesis but on first use (C02 only)
	LazyModules bool `json:"lazy_modules,omitempty"`
	// Anchor-1 is the key index of a validator that is never reported absent or accused (0 = none)
	Anchor int `json:"anchor,omitempty"`
}

type hEvidence struct {
	Val       int   `json:"val"`              // index (mod) into the sorted list of all validators ever in Tendermint's set; -1 unknown address
	ByKey     bool  `json:"by_key,omitempty"` // Val is a key-pool index instead (skipped when that key never was in the set)
	HeightAgo int64 `json:"height_ago"`       // infraction height = current - 1 - HeightAgo (clamped to >= 1)
	AgeSec    int64 `json:"age_sec"`          // evidence timestamp = block time - AgeSec
	PowerMode int   `json:"power_mode"`       // 0 power at infraction height, 1 +1, 2 zero, 3 half
}

type hTx struct {
	Kind     string `json:"kind"` // send stake unstake unjail award burn param dao upgrade raw
	From     int    `json:"from"`
	To       int    `json:"to,omitempty"`   // key index; 100+i = module account i
	Amt      int64  `json:"amt,omitempty"`  // amount / offset
	Rel      string `json:"rel,omitempty"`  // amount relative to: bal (signer balance), min (stake minimum), stake (own stake), dao (dao balance)
	Str      string `json:"str,omitempty"`  // severity / param value / raw bytes (hex) / dao action
	Key      string `json:"pkey,omitempty"` // parameter key
	Fee      int64  `json:"fee"`            // offset to the required fee (0 = exactly required)
	FeeAbs   bool   `json:"fee_abs,omitempty"`
	FeeDust  int64  `json:"fee_dust,omitempty"` // the fee also names this much of the second denomination
	SignWith int    `json:"sign_with"`          // -1 = From
	KeyInSig bool   `json:"key_in_sig,omitempty"`
	Memo     string `json:"memo,omitempty"`
	Entropy  int64  `json:"entropy"`
	Mut      string `json:"mut,omitempty"`    // mutation applied after signing
	Mode     string `json:"mode,omitempty"`   // "" deliver, check, simulate
	Replay   int    `json:"replay,omitempty"` // >0: resend the n-th most recent committed tx instead
	// AsOwner: for governance messages the sender is resolved at execution time to the pool key that currently
	// owns the parameter (param), the upgrade entry (upgrade) or the DAO (dao) - whoever that is after any number
	// of hand-overs; From is used when no pool key owns it
	AsOwner bool `json:"as_owner,omitempty"`
}

type hQuery struct {
	Path string `json:"path"`
	Data string `json:"data,omitempty"` // hex
	H    int64  `json:"h,omitempty"`
	// Tmpl builds well-formed query parameters instead of Data: "page" = {Page: A, Limit: B}, "addr" = the address of
	// pool key A (100+i = module account i)
	Tmpl string `json:"tmpl,omitempty"`
	A    int    `json:"a,omitempty"`
	B    int    `json:"b,omitempty"`
}

// queryData: the request data of a generated query
func (ch *chain) queryData(q *hQuery) []byte {
	switch q.Tmpl {
	case "page":
		bz, _ := simCdc.MarshalJSON(postypes.NewQueryValidatorsParams(q.A, q.B))
		return bz
	case "addr":
		bz, _ := simCdc.MarshalJSON(postypes.NewQueryValidatorParams(ch.addrOf(q.A)))
		return bz
	}
	return unhex(q.Data)
}

type hBlock struct {
	DTSec      int64       `json:"dt_sec"`
	DTNano     int64       `json:"dt_nano,omitempty"`
	Proposer   int         `json:"proposer"` // index (mod) into the current Tendermint set; -1 unknown address; -2 pool key 9; -3 no address at all
	Missed     []int       `json:"missed,omitempty"`
	MissedKeys []int       `json:"missed_keys,omitempty"` // key-pool indices whose validators (if in the last set) did not sign
	Evidence   []hEvidence `json:"evidence,omitempty"`
	Txs        []hTx       `json:"txs,omitempty"`
	Queries    []hQuery    `json:"queries,omitempty"` // issued after the txs (read-only traffic)
	Restart    bool        `json:"restart,omitempty"`
}

type hProg struct {
	Gen    hGenesis `json:"genesis"`
	Blocks []hBlock `json:"blocks"`
	// C01 only: a store-level iterator-schedule program instead of a chain history
	IterLag *iterLagProg `json:"iterlag,omitempty"`
}

// all governance-owned parameters, in a fixed order (the ACL must name an owner for each)
var simParamKeys = []string{
	"auth/FeeMultipliers", "auth/MaxMemoCharacters", "auth/TxSigLimit",
	"gov/acl", "gov/daoOwner", "gov/upgrade",
	"pos/DowntimeJailDuration", "pos/MaxEvidenceAge", "pos/MaxValidators", "pos/MinSignedPerWindow", "pos/ProposerRewardPercentage",
	"pos/SignedBlocksWindow", "pos/SlashFractionDoubleSign", "pos/SlashFractionDowntime", "pos/StakeDenom", "pos/StakeMinimum", "pos/UnstakingTime",
}

var simGenesisTime = time.Date(2020, 1, 1, 0, 0, 0, 0, time.UTC)

// buildGenesis turns the program's genesis description into module genesis states. Every list is
// built from ordered inputs (never from map iteration).
func buildGenesis(g *hGenesis, pool []simKey) (*simGenesis, error) {
	simInit()
	sg := &simGenesis{LazyModules: g.LazyModules}
	dec := func(s string) (sdk.Dec, error) {
		d, err := sdk.NewDecFromStr(s)
		if err != nil {
			return sdk.Dec{}, fmt.Errorf("bad decimal %q", s)
		}
		return d, nil
	}
	minSigned, err := dec(g.MinSigned)
	if err != nil {
		return nil, err
	}
	sds, err := dec(g.SlashDS)
	if err != nil {
		return nil, err
	}
	sdt, err := dec(g.SlashDT)
	if err != nil {
		return nil, err
	}
	sg.Pos = postypes.GenesisState{
		Params: postypes.Params{
			UnstakingTime: time.Duration(g.UnstakingSec) * time.Second, MaxValidators: g.MaxValidators, StakeDenom: sdk.DefaultStakeDenom,
			StakeMinimum: g.StakeMinimum, ProposerRewardPercentage: 90, MaxEvidenceAge: time.Duration(g.MaxEvidenceSec) * time.Second,
			SignedBlocksWindow: g.Window, MinSignedPerWindow: minSigned, DowntimeJailDuration: time.Duration(g.JailSec) * time.Second,
			SlashFractionDoubleSign: sds, SlashFractionDowntime: sdt,
		},
		PrevStateTotalPower: sdk.ZeroInt(),
		SigningInfos:        map[string]postypes.ValidatorSigningInfo{},
		MissedBlocks:        map[string][]postypes.MissedBlock{},
	}
	seen := map[int]bool{}
	for _, gv := range g.Validators {
		if gv.Key < 0 || gv.Key >= len(pool) || pool[gv.Key].Priv == nil || seen[gv.Key] {
			return nil, fmt.Errorf("bad genesis validator key %d", gv.Key)
		}
		seen[gv.Key] = true
		sg.Pos.Validators = append(sg.Pos.Validators, postypes.NewValidator(pool[gv.Key].Addr, pool[gv.Key].Pub, sdk.NewInt(gv.Stake)))
	}
	for i := 0; i < g.ExtraSigning; i++ {
		addr := sdk.Address(bytes.Repeat([]byte{byte(0xA0 + i)}, sdk.AddrLen))
		sg.Pos.SigningInfos[addr.String()] = postypes.ValidatorSigningInfo{Address: addr, StartHeight: int64(i), JailedUntil: time.Unix(0, 0).UTC()}
		sg.Pos.MissedBlocks[addr.String()] = []postypes.MissedBlock{{Index: int64(i), Missed: true}}
	}
	if err := postypes.Params(sg.Pos.Params).Validate(); err != nil {
		return nil, err
	}
	// auth
	sg.Auth.Params = authtypes.Params{MaxMemoCharacters: g.MaxMemo, TxSigLimit: g.TxSigLimit, FeeMultiplier: authtypes.FeeMultipliers{Default: g.FeeDefault}}
	for _, fm := range g.FeeMultis {
		sg.Auth.Params.FeeMultiplier.FeeMultis = append(sg.Auth.Params.FeeMultiplier.FeeMultis, authtypes.FeeMultiplier{Key: fm.Key, Multiplier: fm.Mult})
	}
	seenAcc := map[int]bool{}
	for _, ga := range g.Accounts {
		if ga.Key < 0 || ga.Key >= len(pool) || seenAcc[ga.Key] {
			return nil, fmt.Errorf("bad genesis account key %d", ga.Key)
		}
		seenAcc[ga.Key] = true
		acc := &authtypes.BaseAccount{Address: pool[ga.Key].Addr, Coins: sdk.NewCoins(sdk.NewCoin(sdk.DefaultStakeDenom, sdk.NewInt(ga.Balance)))}
		if ga.Dust > 0 {
			acc.Coins = acc.Coins.Add(sdk.NewCoins(sdk.NewCoin(simDustDenom, sdk.NewInt(ga.Dust))))
		}
		if !ga.NoPub {
			acc.PubKey = pool[ga.Key].Pub
			if ga.PubOf > 0 {
				acc.PubKey = pool[mod(ga.PubOf-1, len(pool))].Pub
			}
		}
		sg.Auth.Accounts = append(sg.Auth.Accounts, acc)
	}
	// gov
	acl := govtypes.ACL{}
	for i, k := range simParamKeys {
		owner := 0
		if len(g.ACLOwners) > 0 {
			owner = g.ACLOwners[i%len(g.ACLOwners)]
		}
		if owner < 0 || owner >= len(pool) {
			return nil, fmt.Errorf("bad acl owner %d", owner)
		}
		acl = append(acl, govtypes.ACLPair{Key: k, Addr: pool[owner].Addr})
	}
	if g.DAOOwner < 0 || g.DAOOwner >= len(pool) {
		return nil, fmt.Errorf("bad dao owner")
	}
	sg.Gov = govtypes.GenesisState{Params: govtypes.Params{ACL: acl, DAOOwner: pool[g.DAOOwner].Addr, Upgrade: govtypes.NewUpgrade(0, "")}, DAOTokens: sdk.NewInt(g.DAOTokens)}
	return sg, nil
}

// ---------------------------------------------------------------------------------------------
// Tendermint mirror

type tmVal struct {
	PubHex string // raw pubkey bytes, hex
	Addr   string // address hex
	Power  int64
}

type tmSet map[string]tmVal // by PubHex

func (s tmSet) clone() tmSet {
	o := tmSet{}
	for k, v := range s {
		o[k] = v
	}
	return o
}

func (s tmSet) sorted() []tmVal {
	var out []tmVal
	for _, v := range s {
		out = append(out, v)
	}
	sort.Slice(out, func(i, j int) bool { return out[i].Addr < out[j].Addr })
	return out
}

func (s tmSet) byAddr() map[string]int64 {
	m := map[string]int64{}
	for _, v := range s {
		m[v.Addr] = v.Power
	}
	return m
}

// applyUpdates applies an EndBlock/InitChain batch the way Tendermint does, reporting why it would
// refuse it.
func applyUpdates(cur tmSet, ups []abci.ValidatorUpdate) (tmSet, string) {
	next := cur.clone()
	seen := map[string]bool{}
	for _, u := range ups {
		ph := hex.EncodeToString(u.PubKey.Data)
		if seen[ph] {
			return nil, fmt.Sprintf("key %s appears twice in one batch", ph)
		}
		seen[ph] = true
		if u.Power < 0 {
			return nil, fmt.Sprintf("negative power %d for %s", u.Power, ph)
		}
		if u.Power == 0 {
			if _, ok := cur[ph]; !ok {
				return nil, fmt.Sprintf("removal of %s which Tendermint does not have", ph)
			}
			delete(next, ph)
			continue
		}
		pk, err := tmtypes.PB2TM.PubKey(u.PubKey)
		if err != nil {
			return nil, fmt.Sprintf("undecodable key %s: %v", ph, err)
		}
		next[ph] = tmVal{PubHex: ph, Addr: hex.EncodeToString(pk.Address()), Power: u.Power}
	}
	return next, ""
}

// ---------------------------------------------------------------------------------------------
// executor

type callInfo struct {
	Kind    string // initchain begin tx end commit restart check simulate query
	Height  int64
	Time    time.Time
	BlockIx int
	TxIx    int
	Tx      *hTx
	TxBytes []byte
	Built   *builtTx
	// responses
	Begin   abci.ResponseBeginBlock
	Deliver abci.ResponseDeliverTx
	Check   abci.ResponseCheckTx
	End     abci.ResponseEndBlock
	Commit  abci.ResponseCommit
	Query   abci.ResponseQuery
	Init    abci.ResponseInitChain
	Req     abci.RequestBeginBlock
	Panic   interface{} // the ABCI call panicked
	Before  *chainView
	After   *chainView
	Awards  []simAward // vhook awards requested in the block so far (for tx/end)
	Burns   []simBurn
}

type chainOracle interface {
	// after is called after every ABCI call; returning a violation stops the case.
	after(ch *chain, ci *callInfo) *Violation
}

type chain struct {
	p      *hProg
	pool   []simKey
	gen    *simGenesis
	db     *crashDB
	app    *simApp
	index  *txIndex
	height int64
	now    time.Time
	// tendermint mirror: sets[h] = validator set that signs block h (h >= 1); grown as blocks end
	sets         map[int64]tmSet
	latestSet    tmSet // S_h: all updates applied so far
	everVals     map[string]tmVal
	powerAt      map[int64]map[string]int64 // height -> addr -> power in sets[height]
	committed    [][]byte                   // txs of committed blocks, oldest first
	blockTxs     [][]byte
	blockCode    []uint32 // DeliverTx codes of blockTxs
	setBeforeEnd tmSet    // Tendermint's set as it was when the current EndBlock's batch was produced
	applyErr     string   // why Tendermint would have refused the last batch ("" = fine)
	emptied      bool
	lastView     *chainView
	c            *Case
	noViews      bool
	// twin mode (C01): every transaction is delivered; its Mode and the block's queries describe extra
	// read-only traffic that only the second instance receives (issued by the oracle)
	deliverAll bool
	// preCommit, when set, runs right before the application's Commit of block index bi (C13: database snapshot)
	preCommit func(bi int)
}

func (ch *chain) pruning() stypes.PruningOptions {
	return stypes.NewPruningOptions(ch.p.Gen.KeepRecent, ch.p.Gen.KeepEvery)
}

func newChain(p *hProg, c *Case) (*chain, *Violation) {
	ch := &chain{p: p, c: c, sets: map[int64]tmSet{}, everVals: map[string]tmVal{}, powerAt: map[int64]map[string]int64{}}
	ch.pool = simKeyPool(p.Gen.Seed)
	gen, err := buildGenesis(&p.Gen, ch.pool)
	if err != nil {
		return nil, nil // not a valid program (hand-edited replay); nothing to check
	}
	ch.gen = gen
	ch.db = newCrashDB()
	_, ch.index = fakeNode()
	ch.index.reset()
	app, err := newSimApp(ch.db, ch.pruning(), gen)
	if err != nil {
		return nil, violf("harness/newapp", "cannot build the app: %v", err)
	}
	ch.app = app
	ch.now = simGenesisTime
	return ch, nil
}

// anchorAddr: hex address of the anchor validator ("" when the history has none)
func (ch *chain) anchorAddr() string {
	if ch.p.Gen.Anchor <= 0 {
		return ""
	}
	return hex.EncodeToString(ch.pool[mod(ch.p.Gen.Anchor-1, len(ch.pool))].Addr)
}

func safeCall(f func()) (pv interface{}) {
	defer func() {
		if r := recover(); r != nil {
			pv = r
		}
	}()
	f()
	return nil
}

func (ch *chain) view() *chainView {
	if ch.noViews {
		return nil
	}
	return ch.app.view()
}

// takeBefore: the state before a call is the state after the previous one (nothing runs in between), so the
// view computed there is reused once; it is dropped before the call executes.
func (ch *chain) takeBefore() *chainView {
	v := ch.lastView
	ch.lastView = nil
	if v == nil {
		v = ch.view()
	}
	return v
}

func (ch *chain) viewAfter() *chainView {
	ch.lastView = ch.view()
	return ch.lastView
}

// run executes the program; the oracle sees every call. A panic escaping an ABCI call ends the
// case after the oracle has seen it.
func (ch *chain) run(o chainOracle) *Violation {
	// InitChain
	ci := &callInfo{Kind: "initchain", Time: ch.now}
	ci.Before = ch.takeBefore()
	ci.Panic = safeCall(func() {
		ci.Init = ch.app.InitChain(abci.RequestInitChain{ChainId: simChainID, Time: ch.now,
			ConsensusParams: &abci.ConsensusParams{
				Block:     &abci.BlockParams{MaxBytes: 1 << 20, MaxGas: ch.p.Gen.maxGas()},
				Evidence:  &abci.EvidenceParams{MaxAge: 100000},
				Validator: &abci.ValidatorParams{PubKeyTypes: []string{tmtypes.ABCIPubKeyTypeEd25519}},
			}})
	})
	if ci.Panic == nil {
		ci.After = ch.viewAfter()
		set, why := applyUpdates(tmSet{}, ci.Init.Validators)
		ch.applyErr = why
		if set == nil {
			set = tmSet{}
		}
		ch.latestSet = set
		ch.sets[1], ch.sets[2] = set, set
		ch.noteSet(1)
		ch.noteSet(2)
	}
	if v := o.after(ch, ci); v != nil || ci.Panic != nil {
		return v
	}

	for bi := range ch.p.Blocks {
		b := &ch.p.Blocks[bi]
		h := ch.height + 1
		if b.DTSec < 0 {
			b.DTSec = 0
		}
		step := time.Duration(b.DTSec)*time.Second + time.Duration(b.DTNano)
		if step < 0 {
			step = 0 // block time never goes backwards
		}
		ch.now = ch.now.Add(step)
		cur := ch.sets[h]
		if cur == nil {
			cur = ch.latestSet
			ch.sets[h] = cur
			ch.noteSet(h)
		}
		// proposer
		var proposer []byte
		sortedCur := cur.sorted()
		switch {
		case b.Proposer == -1 || len(sortedCur) == 0:
			proposer = bytes.Repeat([]byte{0xEE}, sdk.AddrLen)
		case b.Proposer == -3:
			proposer = nil // a header that names no proposer (ABCI drivers other than Tendermint, test networks)
		case b.Proposer == -2:
			proposer = ch.pool[9].Addr
		default:
			pa, _ := hex.DecodeString(sortedCur[mod(b.Proposer, len(sortedCur))].Addr)
			proposer = pa
		}
		req := abci.RequestBeginBlock{Header: abci.Header{ChainID: simChainID, Height: h, Time: ch.now, ProposerAddress: proposer}}
		if h >= 2 {
			last := ch.sets[h-1].sorted()
			missed := map[int]bool{}
			for _, m := range b.Missed {
				if len(last) > 0 {
					missed[mod(m, len(last))] = true
				}
			}
			anchor := ch.anchorAddr()
			for i, v := range last {
				for _, k := range b.MissedKeys {
					if v.Addr == hex.EncodeToString(ch.pool[mod(k, len(ch.pool))].Addr) {
						missed[i] = true
					}
				}
				if v.Addr == anchor {
					missed[i] = false
				}
			}
			for i, v := range last {
				ab, _ := hex.DecodeString(v.Addr)
				req.LastCommitInfo.Votes = append(req.LastCommitInfo.Votes, abci.VoteInfo{Validator: abci.Validator{Address: ab, Power: v.Power}, SignedLastBlock: !missed[i]})
			}
		}
		req.ByzantineValidators = ch.buildEvidence(b, h)
		ci := &callInfo{Kind: "begin", Height: h, Time: ch.now, BlockIx: bi, Req: req}
		ci.Before = ch.takeBefore()
		ci.Panic = safeCall(func() { ci.Begin = ch.app.BeginBlock(req) })
		if ci.Panic == nil {
			ci.After = ch.viewAfter()
		}
		if v := o.after(ch, ci); v != nil || ci.Panic != nil {
			return v
		}
		ch.blockTxs, ch.blockCode = nil, nil
		for ti := range b.Txs {
			tx := &b.Txs[ti]
			bt := ch.buildTx(tx)
			ci := &callInfo{Height: h, Time: ch.now, BlockIx: bi, TxIx: ti, Tx: tx, TxBytes: bt.Bytes, Built: bt}
			ci.Before = ch.takeBefore()
			mode := tx.Mode
			if ch.deliverAll {
				mode = ""
			}
			switch mode {
			case "check", "recheck":
				// (a re-check is what the mempool sends for transactions still pending after a commit; same contract)
				ci.Kind = "check"
				typ := abci.CheckTxType_New
				if mode == "recheck" {
					typ = abci.CheckTxType_Recheck
				}
				ci.Panic = safeCall(func() { ci.Check = ch.app.CheckTx(abci.RequestCheckTx{Tx: bt.Bytes, Type: typ}) })
			case "simulate":
				ci.Kind = "simulate"
				ci.Panic = safeCall(func() { ci.Query = ch.app.Query(abci.RequestQuery{Path: "/app/simulate", Data: bt.Bytes}) })
			default:
				ci.Kind = "tx"
				ci.Panic = safeCall(func() { ci.Deliver = ch.app.DeliverTx(abci.RequestDeliverTx{Tx: bt.Bytes}) })
				ch.blockTxs = append(ch.blockTxs, bt.Bytes)
				ch.blockCode = append(ch.blockCode, ci.Deliver.Code)
			}
			if ci.Panic == nil {
				ci.After = ch.viewAfter()
			}
			ci.Awards, ci.Burns = ch.app.awardLog, ch.app.burnLog
			if os.Getenv("VERIF_TRACE") != "" {
				fmt.Printf("TRACE h=%d tx=%d kind=%s mode=%q from=%d code=%d/%d panic=%v log=%s\n", h, ti, tx.Kind, tx.Mode, tx.From, ci.Deliver.Code, ci.Check.Code, ci.Panic, firstLines(ci.Deliver.Log+ci.Check.Log, 1))
			}
			if v := o.after(ch, ci); v != nil || ci.Panic != nil {
				return v
			}
		}
		for qi := range b.Queries {
			if ch.deliverAll {
				break
			}
			q := &b.Queries[qi]
			ci := &callInfo{Kind: "query", Height: h, Time: ch.now, BlockIx: bi, TxIx: qi}
			ci.Before = ch.takeBefore()
			ci.Panic = safeCall(func() { ci.Query = ch.app.Query(abci.RequestQuery{Path: q.Path, Data: ch.queryData(q), Height: q.H}) })
			if ci.Panic == nil {
				ci.After = ch.viewAfter()
			}
			if v := o.after(ch, ci); v != nil || ci.Panic != nil {
				return v
			}
		}
		// EndBlock
		ci = &callInfo{Kind: "end", Height: h, Time: ch.now, BlockIx: bi}
		ci.Before = ch.takeBefore()
		ci.Panic = safeCall(func() { ci.End = ch.app.EndBlock(abci.RequestEndBlock{Height: h}) })
		if ci.Panic == nil {
			ci.After = ch.viewAfter()
			ch.setBeforeEnd = ch.latestSet
			next, why := applyUpdates(ch.latestSet, ci.End.ValidatorUpdates)
			ch.applyErr = why
			if next != nil {
				if len(next) == 0 && len(ci.End.ValidatorUpdates) > 0 {
					// Tendermint refuses a batch that empties the set: it keeps the old one
					ch.emptied = true
					next = ch.latestSet
				}
				ch.latestSet = next
			}
			ch.sets[h+2] = ch.latestSet
			ch.noteSet(h + 2)
			if ch.sets[h+1] == nil {
				ch.sets[h+1] = ch.sets[h]
				ch.noteSet(h + 1)
			}
		}
		ci.Awards, ci.Burns = ch.app.awardLog, ch.app.burnLog
		if v := o.after(ch, ci); v != nil || ci.Panic != nil {
			return v
		}
		// Commit
		ci = &callInfo{Kind: "commit", Height: h, Time: ch.now, BlockIx: bi}
		ci.Before = ch.takeBefore()
		if ch.preCommit != nil {
			ch.preCommit(bi)
		}
		ci.Panic = safeCall(func() { ci.Commit = ch.app.Commit() })
		if ci.Panic == nil {
			ci.After = ch.viewAfter()
			ch.height = h
			for i, txb := range ch.blockTxs {
				ch.index.add(tmtypes.Tx(txb).Hash(), ch.blockCode[i])
				ch.committed = append(ch.committed, txb)
			}
		}
		if v := o.after(ch, ci); v != nil || ci.Panic != nil {
			return v
		}
		if b.Restart {
			app, err := newSimApp(ch.db, ch.pruning(), ch.gen)
			if err != nil {
				return violf("restart-failed", "reopening the application after commit %d failed: %v", h, err)
			}
			ch.app = app
			ci = &callInfo{Kind: "restart", Height: h, Time: ch.now, BlockIx: bi}
			ci.After = ch.viewAfter()
			if v := o.after(ch, ci); v != nil {
				return v
			}
		}
	}
	return nil
}

func mod(a, n int) int {
	if n <= 0 {
		return 0
	}
	a %= n
	if a < 0 {
		a += n
	}
	return a
}

func (ch *chain) noteSet(h int64) {
	s := ch.sets[h]
	if s == nil {
		return
	}
	ch.powerAt[h] = s.byAddr()
	for _, v := range s {
		if _, ok := ch.everVals[v.Addr]; !ok {
			ch.everVals[v.Addr] = v
		}
	}
}

func (ch *chain) everSorted() []tmVal {
	var out []tmVal
	for _, v := range ch.everVals {
		out = append(out, v)
	}
	sort.Slice(out, func(i, j int) bool { return out[i].Addr < out[j].Addr })
	return out
}

func (ch *chain) buildEvidence(b *hBlock, h int64) []abci.Evidence {
	var out []abci.Evidence
	var cur *chainView
	ever := ch.everSorted()
	for _, e := range b.Evidence {
		ih := h - 1 - e.HeightAgo
		if ih < 1 {
			ih = 1
		}
		if ih >= h {
			continue
		}
		var addr []byte
		var power int64
		if e.Val < 0 || len(ever) == 0 {
			// known finding: evidence for a never-registered address panics BeginBlock; once listed it is left out
			if ch.c != nil && ch.c.Excluding(sigUnknownEvidence) {
				continue
			}
			addr = bytes.Repeat([]byte{0xDD}, sdk.AddrLen)
			power = 1
		} else {
			v := ever[mod(e.Val, len(ever))]
			if e.ByKey {
				want, found := hex.EncodeToString(ch.pool[mod(e.Val, len(ch.pool))].Addr), false
				for _, ev := range ever {
					if ev.Addr == want {
						v, found = ev, true
					}
				}
				if !found {
					continue
				}
			}
			if v.Addr == ch.anchorAddr() {
				continue
			}
			// known finding: evidence against a tombstoned validator that staked again panics BeginBlock
			if ch.c != nil && knownSigs()[sigTombstonedEvidence] && !ch.noViews {
				if cur == nil {
					cur = ch.app.view()
				}
				if val, ok := cur.Vals[v.Addr]; ok && val.Status != sdk.Unstaked && cur.Sign[v.Addr].Tombstoned && ch.c.Excluding(sigTombstonedEvidence) {
					continue
				}
			}
			addr, _ = hex.DecodeString(v.Addr)
			power = ch.powerAt[ih][v.Addr]
			switch e.PowerMode {
			case 1:
				power++
			case 2:
				power = 0
			case 3:
				power /= 2
			case 4:
				power = ch.powerAt[h-1][v.Addr]
			}
		}
		age := e.AgeSec
		if age < 0 {
			age = 0
		}
		out = append(out, abci.Evidence{Type: tmtypes.ABCIEvidenceTypeDuplicateVote, Validator: abci.Validator{Address: addr, Power: power},
			Height: ih, Time: ch.now.Add(-time.Duration(age) * time.Second), TotalVotingPower: 0})
	}
	return out
}

const sigTombstonedEvidence = `C07/beginblock-panics: ERROR: Codespace: pos Code: # Message: "Warning: validator is already tombstoned"`
const sigUnknownEvidence = `C07/beginblock-panics: ERROR: Codespace: pos Code: # Message: "Warning: the DS evidence is unable to be handled"`

// panicClass shortens a panic value to a stable class for labels.
func panicClass(pv interface{}) string {
	s := fmt.Sprint(pv)
	s = strings.Join(strings.Fields(s), " ")
	s = panicHexRe.ReplaceAllString(s, "#")
	out := []rune(s)
	if len(out) > 90 {
		out = out[:90]
	}
	return string(out)
}

var panicHexRe = regexp.MustCompile(`[0-9A-Fa-f]{6,}|[0-9]+`)

func indexAny(s, chars string) int {
	for i, r := range s {
		for _, c := range chars {
			if r == c {
				return i
			}
		}
	}
	return -1
}
