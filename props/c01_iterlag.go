package props

// C01 (second program shape) — goroutine-driven iterators. An IAVL store iterator is fed by a
// traversal goroutine that loads tree nodes from the database on demand. If Close() returns while
// that goroutine is still walking, a later pruning Commit deletes nodes the walk still needs and the
// goroutine panics ("Value missing for hash"), which kills the process on one replica and not on the
// other: a schedule-dependent divergence. The harness owns that schedule: database reads issued by a
// traversal goroutine are held at a gate whenever the consumer is not waiting for an item, so the
// goroutine is as late as any scheduler could make it. The oracle is the crash condition itself: a
// traversal goroutine is handed a missing node.

import (
	"bytes"
	"fmt"
	"runtime"
	"strconv"
	"sync"
	"time"

	"pgregory.net/rapid"

	"github.com/pokt-network/posmint/store/rootmulti"
	stypes "github.com/pokt-network/posmint/store/types"
)

type ilWrite struct {
	K   string `json:"k"`
	V   string `json:"v,omitempty"`
	Del bool   `json:"del,omitempty"`
}

type iterLagProg struct {
	KeepRecent int64       `json:"keep_recent"`
	KeepEvery  int64       `json:"keep_every"`
	Pre        [][]ilWrite `json:"pre"`
	Reopen     bool        `json:"reopen,omitempty"`
	Start      *string     `json:"start,omitempty"`
	End        *string     `json:"end,omitempty"`
	Asc        bool        `json:"asc,omitempty"`
	Consume    int         `json:"consume"`
	Post       [][]ilWrite `json:"post"`
}

func curGoID() int64 {
	var buf [64]byte
	n := runtime.Stack(buf[:], false)
	f := bytes.Fields(buf[:n])
	if len(f) < 2 {
		return -1
	}
	id, _ := strconv.ParseInt(string(f[1]), 10, 64)
	return id
}

// gateDB delays database reads of every goroutine other than the consumer while the gate is on and
// the consumer is not waiting for an item: such a read is held until Close() has returned on the
// consumer's side, or 5 ms have passed (a Close that waits for the traversal can never return first).
// The read is issued inside iavl's nodeDB mutex, so it is never held across consumer work on the tree.
// A read that starts after Close() returned is "late": nothing orders it before whatever the consumer
// does next, so a schedule exists in which it runs after the next pruning Commit.
type gateDB struct {
	*crashDB
	mainID int64
	mu     sync.Mutex
	cond   *sync.Cond
	on     bool
	closed bool // Close() has returned to the consumer
	gated  int  // reads that were held
	late   []string
	seen   map[int64]bool
}

func newGateDB() *gateDB {
	g := &gateDB{crashDB: newCrashDB(), mainID: curGoID(), seen: map[int64]bool{}}
	g.cond = sync.NewCond(&g.mu)
	return g
}

func (g *gateDB) Get(k []byte) []byte {
	id := curGoID()
	if id == g.mainID {
		return g.crashDB.Get(k)
	}
	g.mu.Lock()
	g.seen[id] = true
	if g.on && !g.closed {
		g.gated++
		timer := time.AfterFunc(5*time.Millisecond, func() {
			g.mu.Lock()
			g.on = false // one timeout per case is enough: Close is waiting for this goroutine
			g.mu.Unlock()
			g.cond.Broadcast()
		})
		for g.on && !g.closed {
			g.cond.Wait()
		}
		timer.Stop()
	}
	if g.closed {
		g.late = append(g.late, string(k))
	}
	g.mu.Unlock()
	return g.crashDB.Get(k)
}

func (g *gateDB) set(on, closed bool) {
	g.mu.Lock()
	g.on, g.closed = on, closed
	g.mu.Unlock()
	g.cond.Broadcast()
}

func (g *gateDB) snapshot() (gated int, late []string) {
	g.mu.Lock()
	defer g.mu.Unlock()
	return g.gated, append([]string{}, g.late...)
}

// alive reports whether any traversal goroutine seen by the gate still exists.
func (g *gateDB) alive() bool {
	g.mu.Lock()
	var ids []int64
	for id := range g.seen {
		ids = append(ids, id)
	}
	g.mu.Unlock()
	if len(ids) == 0 {
		return false
	}
	buf := make([]byte, 1<<20)
	for {
		n := runtime.Stack(buf, true)
		if n < len(buf) {
			buf = buf[:n]
			break
		}
		buf = make([]byte, 2*len(buf))
	}
	for _, id := range ids {
		if bytes.Contains(buf, []byte(fmt.Sprintf("goroutine %d [", id))) {
			return true
		}
	}
	return false
}

func genIterLag(t *rapid.T, tier string) *iterLagProg {
	p := &iterLagProg{}
	p.KeepRecent = rapid.SampledFrom([]int64{0, 0, 1, 2}).Draw(t, "keeprecent")
	p.KeepEvery = rapid.SampledFrom([]int64{0, 0, 3, 10000}).Draw(t, "keepevery")
	var used []string
	genBlock := func(minW, maxW int) *rapid.Generator[[]ilWrite] {
		return rapid.Custom(func(t *rapid.T) []ilWrite {
			return rapid.SliceOfN(rapid.Custom(func(t *rapid.T) ilWrite {
				var w ilWrite
				if len(used) > 0 && rapid.IntRange(0, 2).Draw(t, "reuse") == 0 {
					w.K = rapid.SampledFrom(used).Draw(t, "usedkey")
				} else {
					w.K = genKeyHex(t, "k", 1, 2)
					used = append(used, w.K)
				}
				if rapid.IntRange(0, 4).Draw(t, "del") == 0 {
					w.Del = true
				} else {
					w.V = genValHex(t, "v", false)
				}
				return w
			}), minW, maxW).Draw(t, "writes")
		})
	}
	p.Pre = rapid.SliceOfN(genBlock(4, 16), 3, 8).Draw(t, "pre")
	p.Reopen = rapid.IntRange(0, 3).Draw(t, "reopen") > 0
	if rapid.IntRange(0, 2).Draw(t, "bounded") == 0 {
		p.Start = genBound(t, "start")
		p.End = genBound(t, "end")
	}
	p.Asc = rapid.Bool().Draw(t, "asc")
	p.Consume = rapid.IntRange(0, 3).Draw(t, "consume")
	p.Post = rapid.SliceOfN(genBlock(1, 6), 1, 4).Draw(t, "post")
	return p
}

func execIterLag(p *iterLagProg, c *Case) *Violation {
	if len(p.Pre) == 0 || len(p.Post) == 0 {
		return nil
	}
	db := newGateDB()
	key := stypes.NewKVStoreKey("s")
	open := func() (*rootmulti.Store, error) {
		rs := rootmulti.NewStore(db)
		rs.SetPruning(stypes.NewPruningOptions(p.KeepRecent, p.KeepEvery))
		rs.MountStoreWithDB(key, stypes.StoreTypeIAVL, nil)
		return rs, rs.LoadLatestVersion()
	}
	rs, err := open()
	if err != nil {
		return violf("harness/iterlag-open", "%v", err)
	}
	model := flatKV{}
	apply := func(ws []ilWrite) {
		st := rs.GetKVStore(key)
		for _, w := range ws {
			if w.Del {
				st.Delete(unhex(w.K))
				delete(model, string(unhex(w.K)))
			} else {
				st.Set(unhex(w.K), unhex(w.V))
				model[string(unhex(w.K))] = unhex(w.V)
			}
		}
		rs.Commit()
	}
	for _, b := range p.Pre {
		apply(b)
	}
	if p.Reopen {
		if rs, err = open(); err != nil {
			return violf("harness/iterlag-reopen", "%v", err)
		}
		c.Label("iterlag:reopened")
	}
	start, end := optBytes(p.Start), optBytes(p.End)
	want := model.rangeKeys(start, end, p.Asc)

	// open the iterator and take p.Consume items (gate off: the traversal runs freely while we wait for items)
	st := rs.GetKVStore(key)
	var it stypes.Iterator
	if p.Asc {
		it = st.Iterator(start, end)
	} else {
		it = st.ReverseIterator(start, end)
	}
	taken := 0
	for taken < p.Consume && it.Valid() {
		if taken >= len(want) || string(it.Key()) != want[taken] {
			return violf("C01/iterlag/wrong-item", "item %d of the iteration is %x, the committed content says %x", taken, it.Key(), want)
		}
		taken++
		it.Next()
	}
	exhausted := !it.Valid()
	db.set(true, false) // whatever the traversal reads from now on is read ahead of the consumer
	it.Close()
	db.set(false, true)
	for i := 0; i < 4000 && db.alive(); i++ {
		time.Sleep(250 * time.Microsecond)
	}
	if db.alive() {
		c.Label("iterlag:traversal-goroutine-still-alive-after-1s")
		return nil
	}

	// life goes on: more blocks, whose commits prune according to the configuration
	delBefore := countDeleted(db.crashDB)
	for _, b := range p.Post {
		apply(b)
	}
	pruned := countDeleted(db.crashDB) > delBefore
	gated, late := db.snapshot()
	for _, k := range late {
		if db.crashDB.Get([]byte(k)) == nil {
			return violf("C01/iterator-goroutine-reads-pruned-node",
				"an IAVL iterator (range %v..%v asc=%v, store reopened=%v) was closed after %d items; Close() returned while its traversal goroutine was still walking: the goroutine read node %x after Close had returned, "+
					"and the next %d commit(s) (pruning keepRecent=%d keepEvery=%d) delete that node. Nothing orders that read before the commit, so under another schedule iavl panics with \"Value missing for hash\" in the traversal goroutine and the process dies (one replica crashes, another does not)",
				hexOpt(p.Start), hexOpt(p.End), p.Asc, p.Reopen, taken, k, len(p.Post), p.KeepRecent, p.KeepEvery)
		}
	}
	if exhausted {
		c.Label("iterlag:exhausted-before-close")
	}
	if gated > 0 {
		c.Label("iterlag:traversal-held-at-gate")
	}
	if len(late) > 0 {
		c.Label("iterlag:reads-after-close-returned")
	}
	if gated > 0 && pruned && !exhausted {
		c.NonTrivial()
	}
	return nil
}

func hexOpt(p *string) string {
	if p == nil {
		return "nil"
	}
	return *p
}

// countDeleted: number of delete operations the database has admitted (orphan pruning)
func countDeleted(c *crashDB) int {
	c.mtx.Lock()
	defer c.mtx.Unlock()
	return c.nDeletes
}
