package props

// C17 — Governance: only the listed owner changes a parameter or moves DAO funds.

import (
	"bytes"
	"encoding/hex"
	"fmt"
	"reflect"
	"time"

	"pgregory.net/rapid"

	sdk "github.com/pokt-network/posmint/types"
	authtypes "github.com/pokt-network/posmint/x/auth/types"
	govtypes "github.com/pokt-network/posmint/x/gov/types"
)

// registered type of every governance-owned parameter
var c17ParamTypes = map[string]reflect.Type{
	"auth/MaxMemoCharacters": reflect.TypeOf(uint64(0)), "auth/TxSigLimit": reflect.TypeOf(uint64(0)), "auth/FeeMultipliers": reflect.TypeOf(authtypes.FeeMultipliers{}),
	"gov/acl": reflect.TypeOf(govtypes.ACL{}), "gov/daoOwner": reflect.TypeOf(sdk.Address{}), "gov/upgrade": reflect.TypeOf(govtypes.Upgrade{}),
	"pos/UnstakingTime": reflect.TypeOf(time.Duration(0)), "pos/MaxValidators": reflect.TypeOf(uint64(0)), "pos/StakeDenom": reflect.TypeOf(""),
	"pos/StakeMinimum": reflect.TypeOf(int64(0)), "pos/ProposerRewardPercentage": reflect.TypeOf(int8(0)), "pos/MaxEvidenceAge": reflect.TypeOf(time.Duration(0)),
	"pos/SignedBlocksWindow": reflect.TypeOf(int64(0)), "pos/MinSignedPerWindow": reflect.TypeOf(sdk.Dec{}), "pos/DowntimeJailDuration": reflect.TypeOf(time.Duration(0)),
	"pos/SlashFractionDoubleSign": reflect.TypeOf(sdk.Dec{}), "pos/SlashFractionDowntime": reflect.TypeOf(sdk.Dec{}),
}

type c17Oracle struct {
	c         *Case
	handovers map[string]bool // keys whose owner changed
	oldFailed map[string]bool
	nt        bool
	aborted   bool
}

func (ch *chain) govACL(v *chainView) govtypes.ACL {
	var acl govtypes.ACL
	if bz, ok := v.Raw[sdk.ParamsKey.Name()]["gov/acl"]; ok {
		_ = simCdc.UnmarshalJSON(bz, &acl)
	}
	return acl
}

// aclOwner looks the owner of a parameter up in an ACL value (own loop, independent of ACL.GetOwner)
func aclOwner(acl govtypes.ACL, key string) sdk.Address {
	for _, p := range acl {
		if p.Key == key {
			return p.Addr
		}
	}
	return nil
}

func (ch *chain) daoOwner(v *chainView) sdk.Address {
	var a sdk.Address
	if bz, ok := v.Raw[sdk.ParamsKey.Name()]["gov/daoOwner"]; ok {
		_ = simCdc.UnmarshalJSON(bz, &a)
	}
	return a
}

// onlyFeeAndParam checks that the changed keys are the signer's account, the fee collector and (optionally) one params entry.
func (ch *chain) onlyFeeAnd(before, after *chainView, signer sdk.Address, allowed map[string]bool) string {
	feeAddr := authtypes.NewModuleAddress(authtypes.FeeCollectorName)
	for _, k := range rawDiffKeys(before, after) {
		if k[0] == ch.app.keyAuth.Name() && (k[1] == string(append([]byte{0x01}, signer...)) || k[1] == string(append([]byte{0x01}, feeAddr...))) {
			continue
		}
		if allowed[k[0]+"|"+k[1]] {
			continue
		}
		return fmt.Sprintf("%s[%x]: %x -> %x", k[0], k[1], before.Raw[k[0]][k[1]], after.Raw[k[0]][k[1]])
	}
	return ""
}

func (o *c17Oracle) after(ch *chain, ci *callInfo) *Violation {
	if ci.Panic != nil {
		o.aborted = true
		o.c.Label("panic:" + ci.Kind + ":" + panicClass(ci.Panic))
		return nil
	}
	// "only through a governance message": nothing else - another transaction, BeginBlock, EndBlock, Commit, a
	// restart - may change a parameter or lower the DAO balance
	isGov := false
	if ci.Kind == "tx" && ci.Built != nil && ci.Built.Msg != nil {
		switch ci.Built.Msg.(type) {
		case govtypes.MsgChangeParam, govtypes.MsgDAOTransfer, govtypes.MsgUpgrade:
			isGov = true
		}
	}
	if !isGov && ci.Before != nil && ci.After != nil && ci.Kind != "initchain" {
		pn := sdk.ParamsKey.Name()
		for k, bv := range ci.Before.Raw[pn] {
			if av, ok := ci.After.Raw[pn][k]; !ok || !bytes.Equal(av, bv) {
				return violf("C17/param-changed-without-governance-message", "%s at height %d (block %d tx %d): parameter %s changed from %s to %s", ci.Kind, ci.Height, ci.BlockIx, ci.TxIx, k, bv, ci.After.Raw[pn][k])
			}
		}
		for k := range ci.After.Raw[pn] {
			if _, ok := ci.Before.Raw[pn][k]; !ok {
				return violf("C17/param-changed-without-governance-message", "%s at height %d (block %d tx %d): parameter %s appeared", ci.Kind, ci.Height, ci.BlockIx, ci.TxIx, k)
			}
		}
		dao := authtypes.NewModuleAddress(govtypes.DAOAccountName)
		if ci.After.coinsOf(dao).LT(ci.Before.coinsOf(dao)) {
			return violf("C17/dao-funds-moved-without-authority", "%s at height %d (block %d tx %d): the DAO balance fell from %s to %s without a DAO message", ci.Kind, ci.Height, ci.BlockIx, ci.TxIx, ci.Before.coinsOf(dao), ci.After.coinsOf(dao))
		}
	}
	if ci.Kind != "tx" || ci.Built == nil || ci.Built.Msg == nil {
		return nil
	}
	before, after := ci.Before, ci.After
	where := fmt.Sprintf("tx at height %d (block %d tx %d)", ci.Height, ci.BlockIx, ci.TxIx)
	feeAddr := authtypes.NewModuleAddress(authtypes.FeeCollectorName)
	antePassed := after.coinsOf(feeAddr).GT(before.coinsOf(feeAddr)) || ci.Deliver.Code == 0
	params := sdk.ParamsKey.Name()
	accepted := ci.Deliver.Code == 0
	switch m := ci.Built.Msg.(type) {
	case govtypes.MsgChangeParam:
		owner := aclOwner(ch.govACL(before), m.ParamKey)
		isOwner := len(owner) > 0 && bytes.Equal(owner, m.FromAddress)
		if !isOwner {
			if accepted {
				return violf("C17/param-changed-by-non-owner", "%s: MsgChangeParam(%s) from %s accepted although the access-control list names %s as its owner", where, m.ParamKey, m.FromAddress, owner)
			}
			if bad := ch.onlyFeeAnd(before, after, m.FromAddress, nil); bad != "" {
				return violf("C17/rejected-gov-message-changed-state", "%s: rejected MsgChangeParam(%s) from non-owner %s changed %s", where, m.ParamKey, m.FromAddress, bad)
			}
			if o.handovers[m.ParamKey] && antePassed {
				o.oldFailed[m.ParamKey] = true
			}
			o.c.Label("non-owner-change-refused")
			return nil
		}
		if !antePassed {
			return nil // refused by the ante handler (fee, signature ...): C03's subject
		}
		ty, known := c17ParamTypes[m.ParamKey]
		if !known {
			return nil
		}
		// expected new raw value: decode the current value, merge the submitted JSON, re-encode canonically
		cur := before.Raw[params][m.ParamKey]
		dest := reflect.New(ty)
		if len(cur) > 0 {
			_ = simCdc.UnmarshalJSON(cur, dest.Interface())
		}
		wellFormed := simCdc.UnmarshalJSON(m.ParamVal, dest.Interface()) == nil
		want := cur
		if wellFormed {
			bz, err := simCdc.MarshalJSON(dest.Elem().Interface())
			if err == nil {
				want = bz
			}
		}
		if wellFormed && !accepted {
			return violf("C17/owner-change-refused", "%s: the owner's well-formed MsgChangeParam(%s=%s) was refused: code %d %s", where, m.ParamKey, m.ParamVal, ci.Deliver.Code, firstLines(ci.Deliver.Log, 2))
		}
		if got := after.Raw[params][m.ParamKey]; !bytes.Equal(got, want) {
			return violf("C17/param-value", "%s: MsgChangeParam(%s=%s) by the owner (well-formed=%v): parameter is now %s, expected %s", where, m.ParamKey, m.ParamVal, wellFormed, got, want)
		}
		if bad := ch.onlyFeeAnd(before, after, m.FromAddress, map[string]bool{params + "|" + m.ParamKey: true}); bad != "" {
			return violf("C17/change-altered-something-else", "%s: MsgChangeParam(%s) by the owner also changed %s", where, m.ParamKey, bad)
		}
		o.c.Labelf("owner-change wellformed=%v accepted=%v", wellFormed, accepted)
		if wellFormed && (m.ParamKey == "gov/acl") {
			oldACL, newACL := ch.govACL(before), ch.govACL(after)
			for _, k := range simParamKeys {
				if !bytes.Equal(aclOwner(oldACL, k), aclOwner(newACL, k)) {
					o.handovers[k] = true
				}
			}
		}
		if o.handovers[m.ParamKey] && o.oldFailed[m.ParamKey] && wellFormed {
			o.nt = true
		}
	case govtypes.MsgUpgrade:
		owner := aclOwner(ch.govACL(before), "gov/upgrade")
		isOwner := len(owner) > 0 && bytes.Equal(owner, m.Address)
		if !isOwner {
			if accepted {
				return violf("C17/upgrade-by-non-owner", "%s: MsgUpgrade from %s accepted, owner of gov/upgrade is %s", where, m.Address, owner)
			}
			if bad := ch.onlyFeeAnd(before, after, m.Address, nil); bad != "" {
				return violf("C17/rejected-gov-message-changed-state", "%s: rejected MsgUpgrade changed %s", where, bad)
			}
			return nil
		}
		if !antePassed {
			return nil
		}
		if !accepted {
			return violf("C17/owner-change-refused", "%s: the owner's MsgUpgrade was refused: code %d %s", where, ci.Deliver.Code, firstLines(ci.Deliver.Log, 2))
		}
		want, _ := simCdc.MarshalJSON(m.Upgrade)
		if got := after.Raw[params]["gov/upgrade"]; !bytes.Equal(got, want) {
			return violf("C17/param-value", "%s: MsgUpgrade by the owner: gov/upgrade is now %s, expected %s", where, got, want)
		}
		if bad := ch.onlyFeeAnd(before, after, m.Address, map[string]bool{params + "|gov/upgrade": true}); bad != "" {
			return violf("C17/change-altered-something-else", "%s: MsgUpgrade also changed %s", where, bad)
		}
	case govtypes.MsgDAOTransfer:
		daoAddr := authtypes.NewModuleAddress(govtypes.DAOAccountName)
		owner := ch.daoOwner(before)
		daoBal := before.coinsOf(daoAddr)
		isOwner := len(owner) > 0 && bytes.Equal(owner, m.FromAddress)
		known := m.Action == govtypes.DAOTransferString || m.Action == govtypes.DAOBurnString
		ok := isOwner && known && m.Amount.IsPositive() && !m.Amount.GT(daoBal) && m.Amount.IsInt64()
		if m.Action == govtypes.DAOTransferString && m.ToAddress == nil {
			ok = false
		}
		if !ok {
			if accepted {
				return violf("C17/dao-funds-moved-without-authority", "%s: MsgDAOTransfer(%s, %s) from %s accepted although dao owner=%s, dao balance=%s", where, m.Action, m.Amount, m.FromAddress, owner, daoBal)
			}
			if bad := ch.onlyFeeAnd(before, after, m.FromAddress, nil); bad != "" {
				return violf("C17/rejected-gov-message-changed-state", "%s: rejected MsgDAOTransfer(%s, %s) changed %s", where, m.Action, m.Amount, bad)
			}
			return nil
		}
		if !antePassed {
			return nil
		}
		if !accepted {
			return violf("C17/dao-owner-refused", "%s: the DAO owner's MsgDAOTransfer(%s, %s <= balance %s) was refused: code %d %s", where, m.Action, m.Amount, daoBal, ci.Deliver.Code, firstLines(ci.Deliver.Log, 2))
		}
		// exact movement
		fee := ci.Built.Fee.AmountOf(sdk.DefaultStakeDenom)
		want := map[string]sdk.Int{}
		add := func(a sdk.Address, x sdk.Int) {
			k := hex.EncodeToString(a)
			if cur, ok := want[k]; ok {
				want[k] = cur.Add(x)
			} else {
				want[k] = x
			}
		}
		add(m.FromAddress, fee.Neg())
		add(feeAddr, fee)
		add(daoAddr, m.Amount.Neg())
		wantSupply := sdk.ZeroInt()
		if m.Action == govtypes.DAOTransferString {
			add(m.ToAddress, m.Amount)
		} else {
			wantSupply = m.Amount.Neg()
		}
		all := map[string]bool{}
		for a := range before.Accounts {
			all[a] = true
		}
		for a := range after.Accounts {
			all[a] = true
		}
		for a := range all {
			w := sdk.ZeroInt()
			if x, ok := want[a]; ok {
				w = x
			}
			got := after.Accounts[a].AmountOf(sdk.DefaultStakeDenom).Sub(before.Accounts[a].AmountOf(sdk.DefaultStakeDenom))
			if !got.Equal(w) {
				return violf("C17/dao-amount", "%s: MsgDAOTransfer(%s, %s): account %s changed by %s, expected %s", where, m.Action, m.Amount, a, got, w)
			}
		}
		if d := after.supplyOf().Sub(before.supplyOf()); !d.Equal(wantSupply) {
			return violf("C17/dao-amount", "%s: MsgDAOTransfer(%s, %s): supply changed by %s, expected %s", where, m.Action, m.Amount, d, wantSupply)
		}
		for _, k := range rawDiffKeys(before, after) {
			if k[0] != ch.app.keyAuth.Name() {
				return violf("C17/change-altered-something-else", "%s: MsgDAOTransfer also changed %s[%x]", where, k[0], k[1])
			}
		}
		o.c.Label("dao-" + m.Action)
	}
	return nil
}

func genC17(t *rapid.T, tier string) interface{} {
	pr := &histProfile{OwnerBias: 1, MaxBlocks: 10, MinBlocksOf: []int{2, 5, 8}, MaxTxs: 8, Evidence: 0, Missed: 0, Restart: 0, GovHandover: true,
		TxKinds: []string{"param", "param", "param", "param", "dao", "dao", "upgrade", "send"}, WrongSigner: 12}
	if tier == "thorough" {
		pr.MaxBlocks = 24
	}
	p := genHistory(t, pr)
	// senders are drawn from the small set of owners (and strangers) and must be able to pay the 10000 fee
	have := map[int]bool{}
	for i := range p.Gen.Accounts {
		have[p.Gen.Accounts[i].Key] = true
		if p.Gen.Accounts[i].Balance < 1000000 {
			p.Gen.Accounts[i].Balance = 50000000
		}
		p.Gen.Accounts[i].NoPub = false
	}
	for k := 0; k < simPoolSize; k++ {
		if !have[k] {
			p.Gen.Accounts = append(p.Gen.Accounts, hGenAcc{Key: k, Balance: 50000000})
		}
	}
	p.Gen.MaxMemo = 256
	// scripted hand-over scenario (half of the cases): the ACL owner rewrites the ACL, then the old and the new
	// owner of one parameter both try to change it
	if rapid.Bool().Draw(t, "scenario") {
		pool := simKeyPool(p.Gen.Seed)
		ownerOf := func(i int) int { return p.Gen.ACLOwners[i%len(p.Gen.ACLOwners)] }
		base := rapid.IntRange(0, simPoolSize-1).Draw(t, "scbase")
		step := rapid.IntRange(1, 3).Draw(t, "scstep")
		acl := `{"type":"gov/non_map_acl","value":[`
		for i, k := range simParamKeys {
			if i > 0 {
				acl += ","
			}
			acl += fmt.Sprintf(`{"acl_key":%q,"address":%q}`, k, pool[(base+i*step)%simPoolSize].Addr.String())
		}
		acl += "]}"
		ki := rapid.SampledFrom([]int{1, 2, 8, 11, 16}).Draw(t, "sckey") // MaxMemoCharacters, TxSigLimit, MaxValidators, SignedBlocksWindow, UnstakingTime
		val := map[int]string{1: `"77"`, 2: `"5"`, 8: `"4"`, 11: `"12"`, 16: `"60000000000"`}[ki]
		mk := func(from int, key, v string, e int64) hTx {
			return hTx{Kind: "param", From: from, Key: key, Str: v, SignWith: -1, KeyInSig: true, Entropy: e}
		}
		blk := hBlock{DTSec: 1, Proposer: 0, Txs: []hTx{
			mk(ownerOf(3), "gov/acl", acl, 1001),
			mk(ownerOf(ki), simParamKeys[ki], val, 1002),
			mk((base+ki*step)%simPoolSize, simParamKeys[ki], val, 1003),
		}}
		at := rapid.IntRange(0, len(p.Blocks)).Draw(t, "scat")
		p.Blocks = append(p.Blocks[:at], append([]hBlock{blk}, p.Blocks[at:]...)...)
	}
	owners := append([]int{p.Gen.DAOOwner}, p.Gen.ACLOwners...)
	for bi := range p.Blocks {
		for ti := range p.Blocks[bi].Txs {
			tx := &p.Blocks[bi].Txs[ti]
			if tx.Kind == "send" {
				continue
			}
			switch rapid.IntRange(0, 3).Draw(t, "byowner") {
			case 0: // whoever was drawn
			case 1:
				tx.From = rapid.SampledFrom(owners).Draw(t, "owner") // an owner, maybe of another key
			default: // the genesis owner of exactly this key / of the DAO
				key := tx.Key
				if tx.Kind == "upgrade" {
					key = "gov/upgrade"
				}
				if tx.Kind == "dao" {
					tx.From = p.Gen.DAOOwner
				}
				for i, k := range simParamKeys {
					if k == key {
						tx.From = p.Gen.ACLOwners[i%len(p.Gen.ACLOwners)]
					}
				}
			}
			if tx.Entropy >= 1001 && tx.Entropy <= 1003 && tx.Kind == "param" {
				continue // scripted scenario
			}
			tx.Mode, tx.Mut, tx.Replay, tx.Memo = "", "", 0, ""
			if tx.Fee < 0 {
				tx.Fee = 0
			}
		}
	}
	return p
}

func execC17(prog interface{}, c *Case) *Violation {
	ch, v := newChain(prog.(*hProg), c)
	if v != nil || ch == nil {
		return v
	}
	o := &c17Oracle{c: c, handovers: map[string]bool{}, oldFailed: map[string]bool{}}
	if v := ch.run(o); v != nil {
		return v
	}
	if o.aborted {
		c.Label("aborted-by-panic")
	}
	if len(o.handovers) > 0 {
		c.Label("ownership-hand-over")
	}
	if o.nt {
		c.NonTrivial()
	}
	return nil
}

func init() {
	register(&PropDef{ID: "C17",
		Rule: "funded chains whose genesis access-control list maps every registered parameter of auth/pos/gov to owners drawn from 1-3 keys; transactions: MsgChangeParam with key in {every real key, unknown " +
			"subspace key, unknown key, malformed key}, value in {well-formed, wrong type, malformed JSON}, sender in {owner, owner of another key, stranger, signed by another key}; MsgUpgrade; MsgDAOTransfer " +
			"transfer/burn/unknown action with amounts {1, balance-1, balance, balance+1, negative, random}; ownership hand-overs by rewriting gov/acl and gov/daoOwner with real addresses; oracle from the " +
			"statement: non-owner => rejected and nothing but the fee changes; owner + well-formed => exactly that parameter's raw entry changes to the canonical encoding; DAO => exact account and supply " +
			"deltas. Non-trivial = a hand-over followed by the old owner failing and the new owner succeeding; distinctness = hash of the program",
		Gen: genC17, New: func() interface{} { return &hProg{} }, Exec: execC17, RecordCur: func(interface{}) bool { return true },
		Assum: []string{"an unknown subspace that nevertheless has an ACL entry can only be created by the ACL owner and ends in a deliberate os.Exit: not generated", "upgrade heights are beyond the run's horizon",
			"a legitimate owner's malformed value returns code 0 and changes nothing (accepted either way)"}})
}
