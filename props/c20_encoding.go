package props

// C20 — Encodings round-trip, sign bytes are canonical, malformed input is refused.
// Programs carry the amino-JSON encoding of a generated value (or a byte string for a decoder);
// the executor checks binary / JSON round trips by re-encoding equality, canonical sign bytes,
// decoder robustness on hostile bytes and order preservation of composite store keys.

import (
	"bytes"
	"encoding/binary"
	"encoding/hex"
	"encoding/json"
	"fmt"
	"math/big"
	"reflect"
	"sort"
	"strings"
	"time"

	"pgregory.net/rapid"

	"github.com/pokt-network/posmint/crypto"
	sdk "github.com/pokt-network/posmint/types"
	"github.com/pokt-network/posmint/x/auth"
	authexported "github.com/pokt-network/posmint/x/auth/exported"
	authtypes "github.com/pokt-network/posmint/x/auth/types"
	govtypes "github.com/pokt-network/posmint/x/gov/types"
	postypes "github.com/pokt-network/posmint/x/pos/types"
)

type c20Item struct {
	Kind string `json:"kind"`
	JSON string `json:"json,omitempty"` // amino JSON of the value
	Hex  string `json:"hex,omitempty"`  // bytes offered to a decoder
	A    string `json:"a,omitempty"`    // key-order operands
	B    string `json:"b,omitempty"`
	X    int64  `json:"x,omitempty"`
	Y    int64  `json:"y,omitempty"`
}

type c20Prog struct {
	Items []c20Item `json:"items"`
}

var c20Types = map[string]reflect.Type{
	"stdtx":       reflect.TypeOf(authtypes.StdTx{}),
	"account":     reflect.TypeOf((*authexported.Account)(nil)).Elem(),
	"validator":   reflect.TypeOf(postypes.Validator{}),
	"signinfo":    reflect.TypeOf(postypes.ValidatorSigningInfo{}),
	"coins":       reflect.TypeOf(sdk.Coins{}),
	"int":         reflect.TypeOf(sdk.Int{}),
	"dec":         reflect.TypeOf(sdk.Dec{}),
	"address":     reflect.TypeOf(sdk.Address{}),
	"posparams":   reflect.TypeOf(postypes.Params{}),
	"posgenesis":  reflect.TypeOf(postypes.GenesisState{}),
	"authgenesis": reflect.TypeOf(authtypes.GenesisState{}),
	"govgenesis":  reflect.TypeOf(govtypes.GenesisState{}),
	"supply":      reflect.TypeOf((*authexported.SupplyI)(nil)).Elem(),
	"upgrade":     reflect.TypeOf(govtypes.Upgrade{}),
	"acl":         reflect.TypeOf(govtypes.ACL{}),
	"feemultis":   reflect.TypeOf(authtypes.FeeMultipliers{}),
	"uint":        reflect.TypeOf(sdk.Uint{}),
	"coin":        reflect.TypeOf(sdk.Coin{}),
	"deccoins":    reflect.TypeOf(sdk.DecCoins{}),
	"multisig":    reflect.TypeOf(crypto.MultiSignature{}),
	"missedblock": reflect.TypeOf(postypes.MissedBlock{}),
	"pubkey":      reflect.TypeOf((*crypto.PublicKey)(nil)).Elem(),
}

// ---------------------------------------------------------------------------------------------
// value generators

func genAddrV(t *rapid.T, label string) sdk.Address {
	switch rapid.IntRange(0, 5).Draw(t, label+".shape") {
	case 0:
		return nil
	case 1:
		return sdk.Address{}
	case 2:
		return sdk.Address(bytes.Repeat([]byte{0xff}, 20))
	case 3:
		return sdk.Address(make([]byte, 20))
	}
	return sdk.Address(rapid.SliceOfN(rapid.Byte(), 20, 20).Draw(t, label))
}

func genPubV(t *rapid.T, label string, allowNil bool, depth int) crypto.PublicKey {
	k := rapid.IntRange(0, 6).Draw(t, label+".kind")
	if !allowNil && k == 0 {
		k = 1
	}
	if depth >= 2 && k >= 5 {
		k = 2
	}
	seed := rapid.IntRange(0, 50).Draw(t, label+".seed")
	switch {
	case k == 0:
		return nil
	case k <= 2:
		return c19Pub(c19Key{Kind: "ed", Seed: seed})
	case k <= 4:
		return c19Pub(c19Key{Kind: "secp", Seed: seed})
	}
	n := rapid.IntRange(2, 3).Draw(t, label+".n")
	var ks []crypto.PublicKey
	for i := 0; i < n; i++ {
		ks = append(ks, genPubV(t, fmt.Sprintf("%s.%d", label, i), false, depth+1))
	}
	return crypto.PublicKeyMultiSignature{PublicKeys: ks}
}

func genIntV(t *rapid.T, label string, signed bool) sdk.Int {
	switch rapid.IntRange(0, 5).Draw(t, label+".shape") {
	case 0:
		return sdk.ZeroInt()
	case 1:
		return sdk.NewInt(int64(rapid.IntRange(1, 9).Draw(t, label+".small")))
	case 2:
		v := new(big.Int).Sub(new(big.Int).Lsh(bigOne, 255), bigOne) // maximal
		if signed && rapid.Bool().Draw(t, label+".neg") {
			v.Neg(v)
		}
		return sdk.NewIntFromBigInt(v)
	case 3:
		return sdk.NewInt(rapid.Int64Range(0, 1<<62).Draw(t, label+".i64"))
	}
	return sdk.NewIntFromBigInt(genInRange(t, label+".big", 255, signed))
}

func genCoinsV(t *rapid.T, label string) sdk.Coins {
	switch rapid.IntRange(0, 4).Draw(t, label+".shape") {
	case 0:
		return nil
	case 1:
		return sdk.Coins{}
	}
	cs, _ := toCoins(genCoins(t, label, false))
	return cs
}

func genTimeV(t *rapid.T, label string) time.Time {
	switch rapid.IntRange(0, 4).Draw(t, label+".shape") {
	case 0:
		return time.Unix(0, 0).UTC()
	case 1:
		return time.Unix(253402300799, 0).UTC() // year 9999
	case 2:
		return time.Unix(rapid.Int64Range(0, 253402300799).Draw(t, label+".sec"), int64(rapid.SampledFrom([]int{0, 1, 999999999, 500000000}).Draw(t, label+".ns"))).UTC()
	}
	return time.Unix(rapid.Int64Range(1500000000, 1700000000).Draw(t, label+".sec2"), int64(rapid.IntRange(0, 999999999).Draw(t, label+".ns2"))).UTC()
}

func genMemoV(t *rapid.T) string {
	switch rapid.IntRange(0, 4).Draw(t, "memo.shape") {
	case 0:
		return ""
	case 1:
		return `he said "hi" \ {json:[1,2]}`
	case 2:
		return strings.Repeat("m", 256)
	case 3:
		return "ünï©ødé ✓ \u2028 \x7f"
	}
	return rapid.StringN(0, 40, 200).Draw(t, "memo")
}

func genMsgV(t *rapid.T) sdk.Msg {
	switch rapid.IntRange(0, 8).Draw(t, "msg.kind") {
	case 0:
		return postypes.MsgSend{FromAddress: genAddrV(t, "from"), ToAddress: genAddrV(t, "to"), Amount: genIntV(t, "amt", true)}
	case 1:
		return postypes.MsgStake{PubKey: genPubV(t, "pk", false, 1), Value: genIntV(t, "value", true)}
	case 2:
		return postypes.MsgBeginUnstake{Address: genAddrV(t, "addr")}
	case 3:
		return postypes.MsgUnjail{ValidatorAddr: genAddrV(t, "addr")}
	case 4:
		return govtypes.MsgChangeParam{FromAddress: genAddrV(t, "from"), ParamKey: rapid.SampledFrom([]string{"", "pos/MaxValidators", "a/b/c", "ключ"}).Draw(t, "pkey"),
			ParamVal: rapid.SliceOfN(rapid.Byte(), 0, 20).Draw(t, "pval")}
	case 5:
		return govtypes.MsgDAOTransfer{FromAddress: genAddrV(t, "from"), ToAddress: genAddrV(t, "to"), Amount: genIntV(t, "amt", true), Action: rapid.SampledFrom([]string{"dao_transfer", "dao_burn", "", "x"}).Draw(t, "action")}
	case 6:
		return govtypes.MsgUpgrade{Address: genAddrV(t, "addr"), Upgrade: govtypes.NewUpgrade(rapid.Int64().Draw(t, "uph"), rapid.SampledFrom([]string{"", "1.0.0", "β"}).Draw(t, "upv"))}
	case 7:
		return MsgTestAward{From: genAddrV(t, "from"), To: genAddrV(t, "to"), Amount: genIntV(t, "amt", false)}
	}
	return MsgTestBurn{From: genAddrV(t, "from"), Target: genAddrV(t, "to"), Severity: sdk.Dec{Int: genInRange(t, "sev", 200, true)}}
}

func genStdTxV(t *rapid.T) authtypes.StdTx {
	var sig []byte
	switch rapid.IntRange(0, 3).Draw(t, "sig.shape") {
	case 0:
		sig = nil
	case 1:
		sig = []byte{}
	default:
		sig = rapid.SliceOfN(rapid.Byte(), 1, 80).Draw(t, "sig")
	}
	return authtypes.StdTx{Msg: genMsgV(t), Fee: genCoinsV(t, "fee"), Signature: authtypes.StdSignature{PublicKey: genPubV(t, "sigpk", true, 0), Signature: sig},
		Memo: genMemoV(t), Entropy: rapid.SampledFrom([]int64{0, 1, -1, 1<<63 - 1, -1 << 63, 42}).Draw(t, "entropy")}
}

func genValidatorV(t *rapid.T, label string) postypes.Validator {
	pk := genPubV(t, label+".pk", false, 2) // validators carry plain keys (JSON uses the raw hex key)
	addr := sdk.Address(pk.Address())
	if rapid.IntRange(0, 4).Draw(t, label+".otheraddr") == 0 {
		addr = sdk.Address(rapid.SliceOfN(rapid.Byte(), 20, 20).Draw(t, label+".addr"))
	}
	return postypes.Validator{Address: addr, PublicKey: pk, Jailed: rapid.Bool().Draw(t, label+".jailed"), Status: sdk.StakeStatus(rapid.IntRange(0, 2).Draw(t, label+".status")),
		StakedTokens: genIntV(t, label+".tokens", false), UnstakingCompletionTime: genTimeV(t, label+".time")}
}

func genValue(t *rapid.T, kind string) interface{} {
	switch kind {
	case "stdtx":
		return genStdTxV(t)
	case "account":
		if rapid.Bool().Draw(t, "module") {
			ba := &authtypes.BaseAccount{Address: genAddrV(t, "addr"), Coins: genCoinsV(t, "coins")}
			var acc authexported.Account = &authtypes.ModuleAccount{BaseAccount: ba, Name: rapid.SampledFrom([]string{"", "pos", "fee_collector", "ü"}).Draw(t, "name"),
				Permissions: rapid.SampledFrom([][]string{nil, {}, {"minter"}, {"burner", "staking", "minter"}}).Draw(t, "perms")}
			return &acc
		}
		var acc authexported.Account = &authtypes.BaseAccount{Address: genAddrV(t, "addr"), Coins: genCoinsV(t, "coins"), PubKey: genPubV(t, "pk", true, 0)}
		return &acc
	case "validator":
		return genValidatorV(t, "val")
	case "signinfo":
		return postypes.ValidatorSigningInfo{Address: genAddrV(t, "addr"), StartHeight: rapid.Int64().Draw(t, "start"), IndexOffset: rapid.Int64().Draw(t, "off"),
			JailedUntil: genTimeV(t, "until"), Tombstoned: rapid.Bool().Draw(t, "tomb"), MissedBlocksCounter: rapid.Int64().Draw(t, "missed")}
	case "coins":
		return genCoinsV(t, "coins")
	case "int":
		return genIntV(t, "int", true)
	case "dec":
		return sdk.Dec{Int: genInRange(t, "dec", decBits, true)}
	case "address":
		return genAddrV(t, "addr")
	case "posparams":
		return postypes.Params{UnstakingTime: time.Duration(rapid.Int64().Draw(t, "ut")), MaxValidators: rapid.Uint64().Draw(t, "mv"), StakeDenom: rapid.SampledFrom([]string{"", "upokt", "ü"}).Draw(t, "denom"),
			StakeMinimum: rapid.Int64().Draw(t, "min"), ProposerRewardPercentage: int8(rapid.IntRange(-128, 127).Draw(t, "pct")), MaxEvidenceAge: time.Duration(rapid.Int64().Draw(t, "mea")),
			SignedBlocksWindow: rapid.Int64().Draw(t, "w"), MinSignedPerWindow: sdk.Dec{Int: genInRange(t, "ms", 100, true)}, DowntimeJailDuration: time.Duration(rapid.Int64().Draw(t, "dj")),
			SlashFractionDoubleSign: sdk.Dec{Int: genInRange(t, "sds", 100, true)}, SlashFractionDowntime: sdk.Dec{Int: genInRange(t, "sdt", 100, true)}}
	case "posgenesis":
		g := postypes.GenesisState{Params: postypes.DefaultParams(), PrevStateTotalPower: genIntV(t, "ptp", false), Exported: rapid.Bool().Draw(t, "exported"),
			SigningInfos: map[string]postypes.ValidatorSigningInfo{}, MissedBlocks: map[string][]postypes.MissedBlock{}, PreviousProposer: genAddrV(t, "prop")}
		n := rapid.IntRange(0, 3).Draw(t, "nvals")
		for i := 0; i < n; i++ {
			v := genValidatorV(t, fmt.Sprintf("gv%d", i))
			g.Validators = append(g.Validators, v)
			g.PrevStateValidatorPowers = append(g.PrevStateValidatorPowers, postypes.PrevStatePowerMapping{Address: v.Address, Power: rapid.Int64().Draw(t, "pp")})
			g.SigningInfos[v.Address.String()] = postypes.ValidatorSigningInfo{Address: v.Address, JailedUntil: genTimeV(t, "ju")}
			g.MissedBlocks[v.Address.String()] = []postypes.MissedBlock{{Index: int64(i), Missed: true}}
		}
		return g
	case "authgenesis":
		g := authtypes.GenesisState{Params: authtypes.DefaultParams(), Supply: genCoinsV(t, "supply")}
		n := rapid.IntRange(0, 3).Draw(t, "naccs")
		for i := 0; i < n; i++ {
			g.Accounts = append(g.Accounts, &authtypes.BaseAccount{Address: genAddrV(t, "aa"), Coins: genCoinsV(t, "ac"), PubKey: genPubV(t, "apk", true, 1)})
		}
		if rapid.Bool().Draw(t, "fm") {
			g.Params.FeeMultiplier = authtypes.FeeMultipliers{FeeMultis: []authtypes.FeeMultiplier{{Key: "send", Multiplier: rapid.Int64().Draw(t, "m")}}, Default: rapid.Int64().Draw(t, "d")}
		}
		return g
	case "supply":
		var sup authexported.SupplyI = authtypes.Supply{Total: genCoinsV(t, "total")}
		return &sup
	case "upgrade":
		return govtypes.Upgrade{Height: rapid.Int64().Draw(t, "uh"), Version: rapid.SampledFrom([]string{"", "0.0.1", "ü", "1.0.0-rc1"}).Draw(t, "uv")}
	case "acl":
		var acl govtypes.ACL
		n := rapid.IntRange(0, len(simParamKeys)).Draw(t, "nacl")
		for i := 0; i < n; i++ {
			acl = append(acl, govtypes.ACLPair{Key: rapid.SampledFrom(append([]string{"", "a/b/c", "ü/x"}, simParamKeys...)).Draw(t, "k"), Addr: genAddrV(t, "o")})
		}
		return acl
	case "feemultis":
		fm := authtypes.FeeMultipliers{Default: rapid.Int64().Draw(t, "d")}
		n := rapid.IntRange(0, 3).Draw(t, "nfm")
		for i := 0; i < n; i++ {
			fm.FeeMultis = append(fm.FeeMultis, authtypes.FeeMultiplier{Key: rapid.SampledFrom([]string{"", "send", "stake_validator", "ü"}).Draw(t, "fk"), Multiplier: rapid.Int64().Draw(t, "fmul")})
		}
		return fm
	case "uint":
		return sdk.NewUintFromBigInt(genInRange(t, "uint", 256, false))
	case "coin":
		return sdk.Coin{Denom: rapid.SampledFrom([]string{"upokt", "abc", "a1b2c3d4e5f6g7h8"}).Draw(t, "cd"), Amount: genIntV(t, "ca", false)}
	case "deccoins":
		var dc sdk.DecCoins
		for i, d := range []string{"abc", "upokt", "zzz"} {
			if rapid.Bool().Draw(t, fmt.Sprintf("dc%d", i)) {
				dc = append(dc, sdk.DecCoin{Denom: d, Amount: sdk.Dec{Int: genInRange(t, "dca", decBits, false)}})
			}
		}
		return dc
	case "multisig":
		return crypto.MultiSignature{Sigs: rapid.SliceOfN(rapid.SliceOfN(rapid.Byte(), 0, 70), 0, 4).Draw(t, "sigs")}
	case "missedblock":
		return postypes.MissedBlock{Index: rapid.Int64().Draw(t, "mi"), Missed: rapid.Bool().Draw(t, "mm")}
	case "pubkey":
		pk := genPubV(t, "pk", false, 0)
		return &pk
	case "govgenesis":
		g := govtypes.GenesisState{Params: govtypes.Params{ACL: govtypes.ACL{}, DAOOwner: genAddrV(t, "dao"), Upgrade: govtypes.NewUpgrade(rapid.Int64().Draw(t, "uh"), "v")}, DAOTokens: genIntV(t, "tokens", false)}
		n := rapid.IntRange(0, 3).Draw(t, "nacl")
		for i := 0; i < n; i++ {
			g.Params.ACL = append(g.Params.ACL, govtypes.ACLPair{Key: simParamKeys[rapid.IntRange(0, len(simParamKeys)-1).Draw(t, "k")], Addr: genAddrV(t, "o")})
		}
		return g
	}
	panic("harness: bad kind " + kind)
}

var c20ValueKinds = []string{"stdtx", "stdtx", "stdtx", "stdtx", "account", "account", "validator", "validator", "signinfo", "coins", "int", "dec", "address", "posparams", "posgenesis", "authgenesis", "govgenesis",
	"supply", "upgrade", "acl", "feemultis", "coin", "deccoins", "multisig", "missedblock", "pubkey"} // (sdk.Uint is no wire or storage type of posmint: observation L5)
var c20Decoders = []string{"tx", "tx", "account", "validator", "pubkey", "intjson", "decjson", "decstr", "coinsstr", "intamino", "stdtxjson", "stdtxjson", "accountjson", "validatorjson", "pubkeyjson"}

func genC20(t *rapid.T, tier string) interface{} {
	simInit()
	p := &c20Prog{}
	p.Items = rapid.SliceOfN(rapid.Custom(func(t *rapid.T) c20Item {
		switch rapid.IntRange(0, 9).Draw(t, "class") {
		case 0, 1, 2, 3, 4: // value round trip
			kind := rapid.SampledFrom(c20ValueKinds).Draw(t, "kind")
			v := genValue(t, kind)
			js, err := simCdc.MarshalJSON(v)
			if err != nil {
				// a value the JSON encoder refuses (e.g. a nil numeric inside an interface): nothing to round-trip
				return c20Item{Kind: "skip"}
			}
			it := c20Item{Kind: kind, JSON: string(js)}
			if !c20JSONOnly[kind] {
				// the binary encoding of the ORIGINAL value: what its JSON encoding decodes to must encode to the same bytes
				if res := catch(func() { it.Hex = hex.EncodeToString(simCdc.MustMarshalBinaryBare(v)) }); res.panicked {
					it.Hex = ""
				}
			}
			return it
		case 5, 6, 7: // hostile bytes for a decoder
			dec := rapid.SampledFrom(c20Decoders).Draw(t, "decoder")
			return c20Item{Kind: "bytes:" + dec, Hex: hex.EncodeToString(genHostile(t, dec))}
		case 8:
			if rapid.IntRange(0, 2).Draw(t, "addrkeys") == 0 {
				ab := rapid.SliceOfN(rapid.SampledFrom([]byte{0, 1, 0x7f, 0x80, 0xff}), 20, 20)
				ix := rapid.SampledFrom([]int64{0, 1, 255, 256, 257, 65535, 65536, 1 << 31, 1<<62 + 1})
				return c20Item{Kind: "addrkeys", A: hex.EncodeToString(ab.Draw(t, "ka")), B: hex.EncodeToString(ab.Draw(t, "kb")), X: ix.Draw(t, "ki"), Y: ix.Draw(t, "kj")}
			}
			return c20Item{Kind: "rankkeys", X: rapid.SampledFrom([]int64{1000000, 1999999, 2000000, 1 << 40, 9223372036854775807, 0, 255000000, 256000000, 65535000000, 65536000000}).Draw(t, "sx") + int64(rapid.IntRange(0, 2).Draw(t, "dx")),
				Y: rapid.SampledFrom([]int64{1000000, 1999999, 2000000, 1 << 40, 9223372036854775806, 0, 255000000, 256000000, 65535000000, 65536000000}).Draw(t, "sy") + int64(rapid.IntRange(0, 2).Draw(t, "dy")),
				A: hex.EncodeToString(rapid.SliceOfN(rapid.SampledFrom([]byte{0, 1, 0x7f, 0x80, 0xff}), 20, 20).Draw(t, "a")), B: hex.EncodeToString(rapid.SliceOfN(rapid.SampledFrom([]byte{0, 1, 0x7f, 0x80, 0xff}), 20, 20).Draw(t, "b"))}
		default:
			mk := func(l string) int64 {
				return rapid.SampledFrom([]int64{0, 1, 999999999, 1000000000, 59999999999, 60000000000, 86399000000000, 86400000000000, 946684799999999999, 946684800000000000, 4102444800000000000}).Draw(t, l) + int64(rapid.IntRange(0, 1).Draw(t, l+"d"))
			}
			secs := func(l string) int64 { return rapid.Int64Range(0, 253402300799).Draw(t, l) }
			// the same instants written in other zones (a genesis file may carry "+05:00" timestamps): the key is
			// built from the instant, whatever the location of the time.Time value
			zone := ""
			if rapid.Bool().Draw(t, "zoned") {
				offs := []int{0, 3600, -3600, 19800, -34200, 50400, -43200, 1, -1}
				zone = fmt.Sprintf("%d:%d", rapid.SampledFrom(offs).Draw(t, "za"), rapid.SampledFrom(offs).Draw(t, "zb"))
			}
			if rapid.Bool().Draw(t, "wide") {
				return c20Item{Kind: "timekeys", X: secs("tx"), Y: secs("ty"), A: "sec", B: zone}
			}
			return c20Item{Kind: "timekeys", X: mk("tx"), Y: mk("ty"), A: "nano", B: zone}
		}
	}), 1, 12).Draw(t, "items")
	return p
}

// genHostile: random bytes, or a valid encoding truncated / bit-flipped / extended
func genHostile(t *rapid.T, dec string) []byte {
	if rapid.IntRange(0, 3).Draw(t, "random") == 0 {
		return rapid.SliceOfN(rapid.Byte(), 0, 60).Draw(t, "bytes")
	}
	var valid []byte
	switch dec {
	case "tx":
		valid, _ = simCdc.MarshalBinaryLengthPrefixed(genStdTxV(t))
	case "account":
		valid, _ = simCdc.MarshalBinaryBare(genValue(t, "account"))
	case "validator":
		valid, _ = simCdc.MarshalBinaryLengthPrefixed(genValidatorV(t, "hv"))
	case "pubkey":
		pk := genPubV(t, "hpk", false, 2)
		valid = pk.RawBytes()
	case "intjson", "intamino":
		valid, _ = json.Marshal(genIntV(t, "hi", true))
		if dec == "intamino" {
			valid = []byte(genIntV(t, "hi2", true).String())
		}
		if rapid.IntRange(0, 3).Draw(t, "huge") == 0 {
			valid = []byte(`"` + strings.Repeat("9", rapid.IntRange(70, 90).Draw(t, "digits")) + `"`)
			if dec == "intamino" {
				valid = valid[1 : len(valid)-1]
			}
		}
	case "decjson":
		valid, _ = json.Marshal(sdk.Dec{Int: genInRange(t, "hd", decBits, true)})
	case "decstr":
		valid = []byte(rapid.SampledFrom([]string{"1.5", "-0.000000000000000001", "0.0000000000000000001", "1.", ".5", "--1", "1.2.3", "1e5", " 1", "+1", "0x10", "", "-", "١٢٣", strings.Repeat("9", 400)}).Draw(t, "decs"))
	case "coinsstr":
		valid = []byte(rapid.SampledFrom([]string{"1upokt", "5abc,3abd", "1upokt,1upokt", "0upokt", "1 upokt", "1UPOKT", "-1upokt", "1.5upokt", ",", "1ab", strings.Repeat("9", 100) + "upokt", "1upokt,", "١upokt"}).Draw(t, "coinss"))
	case "stdtxjson":
		valid, _ = simCdc.MarshalJSON(genStdTxV(t))
	case "accountjson":
		valid, _ = simCdc.MarshalJSON(genValue(t, "account"))
	case "validatorjson":
		valid, _ = simCdc.MarshalJSON(genValidatorV(t, "hvj"))
	case "pubkeyjson":
		valid, _ = simCdc.MarshalJSON(genValue(t, "pubkey"))
	}
	if strings.HasSuffix(dec, "json") && len(valid) > 0 && valid[0] == '{' && rapid.Bool().Draw(t, "jsonsurgery") {
		// structural mutation: one node of the document is replaced by a value of another shape (the document
		// stays well-formed JSON, so it reaches the field decoders instead of dying in the parser)
		repl := rapid.SampledFrom([]string{`7`, `0`, `-1`, `""`, `"x"`, `"zz"`, `null`, `true`, `[]`, `{}`, `[1]`, `{"type":"x","value":7}`, `"` + strings.Repeat("f", 131) + `"`, `1e999`, `"\u0000"`}).Draw(t, "jsonrepl")
		if out, ok := jsonSurgery(valid, rapid.IntRange(0, 63).Draw(t, "jsonnode"), repl); ok {
			return out
		}
	}
	b := append([]byte{}, valid...)
	if len(b) == 0 {
		return b
	}
	switch rapid.IntRange(0, 4).Draw(t, "mutation") {
	case 0:
		return b[:rapid.IntRange(0, len(b)).Draw(t, "cut")]
	case 1:
		b[rapid.IntRange(0, len(b)-1).Draw(t, "pos")] ^= byte(1 << uint(rapid.IntRange(0, 7).Draw(t, "bit")))
	case 2:
		b = append(b, rapid.SliceOfN(rapid.Byte(), 1, 8).Draw(t, "tail")...)
	case 3:
		b[0] = byte(rapid.IntRange(0, 255).Draw(t, "first"))
	}
	return b
}

// jsonSurgery replaces the n-th node (object members and array elements, in document order, modulo their number)
// of a JSON document by raw JSON text.
func jsonSurgery(doc []byte, n int, repl string) ([]byte, bool) {
	var root interface{}
	d := json.NewDecoder(bytes.NewReader(doc))
	d.UseNumber()
	if d.Decode(&root) != nil {
		return nil, false
	}
	type slot struct {
		set func(interface{})
	}
	var slots []slot
	var walk func(v interface{})
	walk = func(v interface{}) {
		switch x := v.(type) {
		case map[string]interface{}:
			var ks []string
			for k := range x {
				ks = append(ks, k)
			}
			sort.Strings(ks)
			for _, k := range ks {
				k := k
				slots = append(slots, slot{func(nv interface{}) { x[k] = nv }})
				walk(x[k])
			}
		case []interface{}:
			for i := range x {
				i := i
				slots = append(slots, slot{func(nv interface{}) { x[i] = nv }})
				walk(x[i])
			}
		}
	}
	walk(root)
	if len(slots) == 0 {
		return nil, false
	}
	slots[n%len(slots)].set(json.RawMessage(repl))
	out, err := json.Marshal(root)
	if err != nil {
		return nil, false
	}
	return out, true
}

// ---------------------------------------------------------------------------------------------
// executor

// canonJSON: key-sorted JSON in which absent and empty values (null, "", [], {}) are identified, as the
// statement treats them as equivalent.
func canonJSON(bz []byte) string {
	var v interface{}
	dec := json.NewDecoder(bytes.NewReader(bz))
	dec.UseNumber()
	if err := dec.Decode(&v); err != nil {
		return "!" + string(bz)
	}
	var norm func(v interface{}) interface{}
	norm = func(v interface{}) interface{} {
		switch x := v.(type) {
		case string:
			if x == "" {
				return nil
			}
		case []interface{}:
			if len(x) == 0 {
				return nil
			}
			for i := range x {
				x[i] = norm(x[i])
			}
		case map[string]interface{}:
			if len(x) == 0 {
				return nil
			}
			for k := range x {
				x[k] = norm(x[k])
			}
		}
		return v
	}
	out, _ := json.Marshal(norm(v))
	return string(out)
}

var c20JSONOnly = map[string]bool{"posgenesis": true, "authgenesis": true, "govgenesis": true} // genesis documents are JSON only (amino binary has no maps)

// permuteJSON re-serialises a JSON document with reversed object key order and extra whitespace.
func permuteJSON(bz []byte) []byte {
	var v interface{}
	dec := json.NewDecoder(bytes.NewReader(bz))
	dec.UseNumber()
	if err := dec.Decode(&v); err != nil {
		return bz
	}
	var w func(v interface{}, sb *strings.Builder)
	w = func(v interface{}, sb *strings.Builder) {
		switch x := v.(type) {
		case map[string]interface{}:
			ks := make([]string, 0, len(x))
			for k := range x {
				ks = append(ks, k)
			}
			sort.Sort(sort.Reverse(sort.StringSlice(ks)))
			sb.WriteString("{ ")
			for i, k := range ks {
				if i > 0 {
					sb.WriteString(" ,\n")
				}
				kb, _ := json.Marshal(k)
				sb.Write(kb)
				sb.WriteString(" : ")
				w(x[k], sb)
			}
			sb.WriteString(" }")
		case []interface{}:
			sb.WriteString("[ ")
			for i, e := range x {
				if i > 0 {
					sb.WriteString(" , ")
				}
				w(e, sb)
			}
			sb.WriteString(" ]")
		default:
			b, _ := json.Marshal(x)
			sb.Write(b)
		}
	}
	var sb strings.Builder
	w(v, &sb)
	return []byte(sb.String())
}

func execC20(prog interface{}, c *Case) *Violation {
	simInit()
	p := prog.(*c20Prog)
	for i := range p.Items {
		it := &p.Items[i]
		var v *Violation
		nt := false
		switch {
		case it.Kind == "skip":
			continue
		case strings.HasPrefix(it.Kind, "bytes:"):
			nt, v = c20Hostile(it)
		case it.Kind == "rankkeys":
			nt, v = c20RankKeys(it)
		case it.Kind == "timekeys":
			nt, v = c20TimeKeys(it)
		case it.Kind == "addrkeys":
			nt, v = c20AddrKeys(it)
		default:
			nt, v = c20RoundTrip(it)
		}
		c.Eval(it.Kind+it.JSON+it.Hex+it.A+it.B+fmt.Sprint(it.X, it.Y), nt)
		c.Label(it.Kind)
		if v != nil {
			return v
		}
	}
	return nil
}

func c20RoundTrip(it *c20Item) (bool, *Violation) {
	ty, ok := c20Types[it.Kind]
	if !ok {
		return false, nil
	}
	newPtr := func() interface{} { return reflect.New(ty).Interface() }
	x0 := newPtr()
	res := catch(func() {
		if err := simCdc.UnmarshalJSON([]byte(it.JSON), x0); err != nil {
			panic(err)
		}
	})
	if res.panicked {
		return false, violf("C20/json-roundtrip", "%s: the JSON encoding produced from a value cannot be decoded again: %v\n%s", it.Kind, res.pv, it.JSON)
	}
	deref := func(p interface{}) interface{} { return reflect.ValueOf(p).Elem().Interface() }
	var bin, bare, js0 []byte
	if c20JSONOnly[it.Kind] {
		var err error
		res := catch(func() { js0, err = simCdc.MarshalJSON(deref(x0)) })
		if res.panicked || err != nil {
			return false, violf("C20/encode-panics", "%s: encoding a decoded value fails: %v %v", it.Kind, err, res.pv)
		}
		if canonJSON(js0) != canonJSON([]byte(it.JSON)) {
			return false, violf("C20/json-roundtrip", "%s: decode(encode(x)) re-encodes differently in JSON:\n first  %s\n second %s", it.Kind, canonJSON([]byte(it.JSON)), canonJSON(js0))
		}
		return strings.Contains(it.JSON, "null") || strings.Contains(it.JSON, "[]"), nil
	}
	res = catch(func() {
		bin = simCdc.MustMarshalBinaryLengthPrefixed(deref(x0))
		bare = simCdc.MustMarshalBinaryBare(deref(x0))
		js0 = simCdc.MustMarshalJSON(deref(x0))
	})
	if res.panicked {
		return false, violf("C20/encode-panics", "%s: encoding a decoded value panics: %v\n%s", it.Kind, res.pv, it.JSON)
	}
	if it.Hex != "" && !bytes.Equal(bare, unhex(it.Hex)) {
		return false, violf("C20/json-loses-content", "%s: the value decoded from its own JSON encoding differs from the original: binary encodings %x (original) vs %x (after JSON)\nJSON %s", it.Kind, unhex(it.Hex), bare, it.JSON)
	}
	// JSON is stable
	if canonJSON(js0) != canonJSON([]byte(it.JSON)) {
		return false, violf("C20/json-roundtrip", "%s: decode(encode(x)) re-encodes differently in JSON:\n first  %s\n second %s", it.Kind, canonJSON([]byte(it.JSON)), canonJSON(js0))
	}
	// binary (length-prefixed and bare) round trips
	for _, m := range []struct {
		name string
		bz   []byte
		dec  func([]byte, interface{}) error
		enc  func(interface{}) ([]byte, error)
	}{
		{"length-prefixed", bin, simCdc.UnmarshalBinaryLengthPrefixed, simCdc.MarshalBinaryLengthPrefixed},
		{"bare", bare, simCdc.UnmarshalBinaryBare, simCdc.MarshalBinaryBare},
	} {
		x1 := newPtr()
		var err error
		res := catch(func() { err = m.dec(m.bz, x1) })
		if res.panicked || err != nil {
			return false, violf("C20/binary-roundtrip", "%s: the %s binary encoding cannot be decoded: err=%v panic=%v\nvalue %s", it.Kind, m.name, err, res.pv, it.JSON)
		}
		b1, err := m.enc(deref(x1))
		if err != nil || !bytes.Equal(b1, m.bz) {
			return false, violf("C20/binary-roundtrip", "%s: decode(encode(x)) differs (%s binary): %x vs %x\nvalue %s", it.Kind, m.name, m.bz, b1, it.JSON)
		}
		j1, err := simCdc.MarshalJSON(deref(x1))
		if err != nil || canonJSON(j1) != canonJSON(js0) {
			return false, violf("C20/binary-roundtrip", "%s: value changed across the %s binary round trip:\n before %s\n after  %s", it.Kind, m.name, canonJSON(js0), canonJSON(j1))
		}
	}
	nt := strings.Contains(it.JSON, "null") || strings.Contains(it.JSON, `""`) || strings.Contains(it.JSON, "[]") || strings.Contains(it.JSON, "57896044618658097711785492504343953926634992332820282019728792003956564819967")
	if it.Kind != "stdtx" {
		return nt, nil
	}
	// ---- sign bytes
	tx0 := deref(x0).(authtypes.StdTx)
	if tx0.Msg == nil {
		return nt, nil
	}
	sb := func(tx authtypes.StdTx, chain string) (out []byte, ok bool) {
		res := catch(func() {
			b, err := authtypes.StdSignBytes(chain, tx.Entropy, tx.Fee, tx.Msg, tx.Memo)
			if err == nil {
				out, ok = b, true
			}
		})
		if res.panicked {
			return nil, false
		}
		return
	}
	s0, ok := sb(tx0, "chain-a")
	if !ok {
		return nt, nil // messages whose own GetSignBytes cannot be produced (nil numerics) are not signable
	}
	var txB, txJ, txP authtypes.StdTx
	if err := simCdc.UnmarshalBinaryLengthPrefixed(bin, &txB); err != nil {
		return nt, violf("C20/binary-roundtrip", "stdtx does not decode: %v", err)
	}
	if err := simCdc.UnmarshalJSON(js0, &txJ); err != nil {
		return nt, violf("C20/json-roundtrip", "stdtx JSON does not decode: %v", err)
	}
	if err := simCdc.UnmarshalJSON(permuteJSON(js0), &txP); err != nil {
		return nt, violf("C20/json-roundtrip", "stdtx JSON with permuted fields / whitespace does not decode: %v\n%s", err, permuteJSON(js0))
	}
	for name, tx := range map[string]authtypes.StdTx{"binary round trip": txB, "JSON round trip": txJ, "JSON with permuted fields and whitespace": txP} {
		s, ok := sb(tx, "chain-a")
		if !ok || !bytes.Equal(s, s0) {
			return nt, violf("C20/sign-bytes-not-canonical", "sign bytes differ after %s:\n %s\n %s", name, s0, s)
		}
	}
	// different content => different sign bytes
	variants := map[string]func(tx *authtypes.StdTx) string{
		"chain id": func(tx *authtypes.StdTx) string { return "chain-b" },
		"entropy":  func(tx *authtypes.StdTx) string { tx.Entropy ^= 1; return "chain-a" },
		"memo":     func(tx *authtypes.StdTx) string { tx.Memo += "x"; return "chain-a" },
		"fee": func(tx *authtypes.StdTx) string {
			tx.Fee = tx.Fee.Add(sdk.NewCoins(sdk.NewCoin("zzfee", sdk.NewInt(1))))
			return "chain-a"
		},
		"message": func(tx *authtypes.StdTx) string {
			switch m := tx.Msg.(type) {
			case postypes.MsgSend:
				m.ToAddress = append(append(sdk.Address{}, m.ToAddress...), 0x01)
				tx.Msg = m
			case postypes.MsgStake:
				if m.Value.BigInt().BitLen() >= 255 && m.Value.IsPositive() {
					m.Value = m.Value.Sub(sdk.OneInt())
				} else {
					m.Value = m.Value.Add(sdk.OneInt())
				}
				tx.Msg = m
			case postypes.MsgBeginUnstake:
				m.Address = append(append(sdk.Address{}, m.Address...), 0x01)
				tx.Msg = m
			case postypes.MsgUnjail:
				m.ValidatorAddr = append(append(sdk.Address{}, m.ValidatorAddr...), 0x01)
				tx.Msg = m
			case govtypes.MsgChangeParam:
				m.ParamKey += "x"
				tx.Msg = m
			case govtypes.MsgDAOTransfer:
				m.Action += "x"
				tx.Msg = m
			case govtypes.MsgUpgrade:
				m.Upgrade.Height ^= 1
				tx.Msg = m
			default:
				return ""
			}
			return "chain-a"
		},
	}
	for name, mutate := range variants {
		tx := txB
		chain := mutate(&tx)
		if chain == "" {
			continue
		}
		s, ok := sb(tx, chain)
		if ok && bytes.Equal(s, s0) {
			return true, violf("C20/sign-bytes-collide", "two transactions differing in the %s have the same sign bytes: %s", name, s0)
		}
	}
	return true, nil
}

func c20Hostile(it *c20Item) (bool, *Violation) {
	bz := unhex(it.Hex)
	dec := strings.TrimPrefix(it.Kind, "bytes:")
	var stable = true
	var decoded bool
	var detail string
	res := catch(func() {
		switch dec {
		case "tx":
			tx, err := auth.DefaultTxDecoder(simCdc)(bz)
			if err == nil {
				decoded = true
				b1, e1 := simCdc.MarshalBinaryLengthPrefixed(tx)
				tx2, e2 := auth.DefaultTxDecoder(simCdc)(b1)
				if e1 != nil || e2 != nil {
					stable, detail = false, fmt.Sprintf("re-encode err %v / decode err %v", e1, e2)
					return
				}
				b2, _ := simCdc.MarshalBinaryLengthPrefixed(tx2)
				stable, detail = bytes.Equal(b1, b2), fmt.Sprintf("%x vs %x", b1, b2)
			}
		case "stdtxjson":
			var tx authtypes.StdTx
			if err := simCdc.UnmarshalJSON(bz, &tx); err == nil {
				decoded = true
				j1, e1 := simCdc.MarshalJSON(tx)
				var tx2 authtypes.StdTx
				if e1 != nil {
					return // a decoded value the encoder refuses (nil numerics) is not "a value that re-encodes"
				}
				if e2 := simCdc.UnmarshalJSON(j1, &tx2); e2 != nil {
					stable, detail = false, e2.Error()
					return
				}
				j2, _ := simCdc.MarshalJSON(tx2)
				// a field that was absent in the input (nil numeric) is written as a zero on the first
				// re-encoding: absent and zero are equivalent, so stability is required from there on
				var tx3 authtypes.StdTx
				if e3 := simCdc.UnmarshalJSON(j2, &tx3); e3 != nil {
					stable, detail = false, e3.Error()
					return
				}
				j3, _ := simCdc.MarshalJSON(tx3)
				stable, detail = canonJSON(j2) == canonJSON(j3), string(j2)+" vs "+string(j3)
			}
		case "accountjson", "validatorjson", "pubkeyjson":
			mk := map[string]func() interface{}{
				"accountjson":   func() interface{} { return new(authexported.Account) },
				"validatorjson": func() interface{} { return new(postypes.Validator) },
				"pubkeyjson":    func() interface{} { return new(crypto.PublicKey) },
			}[dec]
			x1 := mk()
			if err := simCdc.UnmarshalJSON(bz, x1); err == nil {
				decoded = true
				j1, e1 := simCdc.MarshalJSON(x1)
				if e1 != nil {
					return // a decoded value the encoder refuses is not "a value that re-encodes"
				}
				x2 := mk()
				if e2 := simCdc.UnmarshalJSON(j1, x2); e2 != nil {
					stable, detail = false, e2.Error()
					return
				}
				j2, _ := simCdc.MarshalJSON(x2)
				x3 := mk()
				if e3 := simCdc.UnmarshalJSON(j2, x3); e3 != nil {
					stable, detail = false, e3.Error()
					return
				}
				j3, _ := simCdc.MarshalJSON(x3)
				stable, detail = canonJSON(j2) == canonJSON(j3), string(j2)+" vs "+string(j3)
			}
		case "account":
			var acc authexported.Account
			if err := simCdc.UnmarshalBinaryBare(bz, &acc); err == nil && acc != nil {
				decoded = true
				b1, e1 := simCdc.MarshalBinaryBare(acc)
				var acc2 authexported.Account
				if e1 != nil || simCdc.UnmarshalBinaryBare(b1, &acc2) != nil {
					stable, detail = false, fmt.Sprint(e1)
					return
				}
				b2, _ := simCdc.MarshalBinaryBare(acc2)
				stable, detail = bytes.Equal(b1, b2), fmt.Sprintf("%x vs %x", b1, b2)
			}
		case "validator":
			v, err := postypes.UnmarshalValidator(simCdc, bz)
			if err == nil {
				decoded = true
				b1, e1 := simCdc.MarshalBinaryLengthPrefixed(v)
				if e1 != nil {
					stable, detail = false, e1.Error()
					return
				}
				v2, e2 := postypes.UnmarshalValidator(simCdc, b1)
				b2, _ := simCdc.MarshalBinaryLengthPrefixed(v2)
				stable, detail = e2 == nil && bytes.Equal(b1, b2), fmt.Sprintf("%v %x vs %x", e2, b1, b2)
			}
		case "pubkey":
			pk, err := crypto.NewPublicKeyBz(bz)
			if err == nil {
				decoded = true
				stable, detail = bytes.Equal(pk.RawBytes(), bz), fmt.Sprintf("%x vs %x", pk.RawBytes(), bz)
			}
		case "intjson":
			var x sdk.Int
			if err := x.UnmarshalJSON(bz); err == nil {
				decoded = true
				if x.BigInt().BitLen() > 255 {
					stable, detail = false, "decoded an out-of-range Int "+x.String()
					return
				}
				b1, _ := x.MarshalJSON()
				var y sdk.Int
				stable = y.UnmarshalJSON(b1) == nil && y.Equal(x)
			}
		case "intamino":
			var x sdk.Int
			if err := x.UnmarshalAmino(string(bz)); err == nil {
				decoded = true
				if x.BigInt().BitLen() > 255 {
					stable, detail = false, "decoded an out-of-range Int "+x.String()
					return
				}
				s, _ := x.MarshalAmino()
				var y sdk.Int
				stable = y.UnmarshalAmino(s) == nil && y.Equal(x)
			}
		case "decjson":
			var x sdk.Dec
			if err := x.UnmarshalJSON(bz); err == nil {
				decoded = true
				b1, _ := x.MarshalJSON()
				var y sdk.Dec
				stable, detail = y.UnmarshalJSON(b1) == nil && y.Equal(x), string(b1)
			}
		case "decstr":
			x, err := sdk.NewDecFromStr(string(bz))
			if err == nil {
				decoded = true
				y, err2 := sdk.NewDecFromStr(x.String())
				stable, detail = err2 == nil && y.Equal(x), x.String()
			}
		case "coinsstr":
			cs, err := sdk.ParseCoins(string(bz))
			if err == nil {
				decoded = true
				if !cs.IsValid() {
					stable, detail = false, "ParseCoins returned an invalid set "+cs.String()
					return
				}
				cs2, err2 := sdk.ParseCoins(cs.String())
				stable, detail = err2 == nil && coinsEqual(cs, cs2), cs.String()
			}
		}
	})
	if res.panicked {
		return true, violf("C20/decoder-panics/"+dec, "decoder %s panicked on %x: %v", dec, bz, res.pv)
	}
	if decoded && !stable {
		return true, violf("C20/decoded-value-unstable/"+dec, "decoder %s accepted %x (%q) but the value does not re-encode consistently: %s", dec, bz, bz, detail)
	}
	return decoded, nil
}

func c20RankKeys(it *c20Item) (bool, *Violation) {
	a, b := unhex(it.A), unhex(it.B)
	if len(a) != sdk.AddrLen || len(b) != sdk.AddrLen || it.X < 0 || it.Y < 0 {
		return false, nil
	}
	va := postypes.Validator{Address: a, StakedTokens: sdk.NewInt(it.X)}
	vb := postypes.Validator{Address: b, StakedTokens: sdk.NewInt(it.Y)}
	ka, kb := postypes.KeyForValidatorInStakingSet(va), postypes.KeyForValidatorInStakingSet(vb)
	if got := postypes.ParseValidatorPowerRankKey(ka); !bytes.Equal(got, a) {
		return false, violf("C20/rank-key-parse", "power-rank key of (%d,%x) parses back to address %x", it.X, a, got)
	}
	if len(ka) != 1+8+sdk.AddrLen || ka[0] != 0x23 || new(big.Int).SetBytes(ka[1:9]).Int64() != it.X/1000000 {
		return false, violf("C20/rank-key-parse", "power-rank key of stake %d does not carry power %d: %x", it.X, it.X/1000000, ka)
	}
	// order: power ascending, then inverted address (so that reverse iteration yields power desc, address asc)
	pa, pb := it.X/1000000, it.Y/1000000
	want := 0
	switch {
	case pa < pb:
		want = -1
	case pa > pb:
		want = 1
	default:
		want = -bytes.Compare(a, b)
	}
	if got := bytes.Compare(ka, kb); got != want {
		return true, violf("C20/rank-key-order", "keys of (power %d, %x) and (power %d, %x) compare %d, values compare %d", pa, a, pb, b, got, want)
	}
	return pa == pb || pa/256 != pb/256, nil
}

// c20AddrKeys: every address-keyed store key decodes back to its address, different (address, index) pairs
// give different keys, the key families do not overlap, and building one key never alters another.
func c20AddrKeys(it *c20Item) (bool, *Violation) {
	a, b := unhex(it.A), unhex(it.B)
	if len(a) != sdk.AddrLen || len(b) != sdk.AddrLen || it.X < 0 || it.Y < 0 {
		return false, nil
	}
	type fam struct {
		name string
		mk   func(sdk.Address) []byte
		back func([]byte) []byte
	}
	strip := func(k []byte) []byte { return k[1:] }
	fams := []fam{
		{"KeyForValByAllVals", postypes.KeyForValByAllVals, postypes.AddressFromKey},
		{"KeyForValidatorPrevStateStateByPower", postypes.KeyForValidatorPrevStateStateByPower, postypes.AddressFromKey},
		{"KeyForValidatorAward", postypes.KeyForValidatorAward, postypes.AddressFromKey},
		{"KeyForValidatorBurn", postypes.KeyForValidatorBurn, postypes.AddressFromKey},
		{"GetValidatorSigningInfoKey", postypes.GetValidatorSigningInfoKey, func(k []byte) []byte { return postypes.GetValidatorSigningInfoAddress(k) }},
		{"GetValMissedBlockPrefixKey", postypes.GetValMissedBlockPrefixKey, strip},
		{"GetAddrPubkeyRelationKey", func(x sdk.Address) []byte { return postypes.GetAddrPubkeyRelationKey(x) }, strip},
		{"auth.AddressStoreKey", authtypes.AddressStoreKey, strip},
	}
	first := map[byte]string{}
	for _, f := range fams {
		ka := append([]byte{}, f.mk(a)...)
		kaLive := f.mk(a)
		kb := f.mk(b)
		if !bytes.Equal(kaLive, ka) {
			return true, violf("C20/addr-key-aliased", "%s: the key built for %x changed to %x when the key for %x was built", f.name, a, kaLive, b)
		}
		var back []byte
		if res := catch(func() { back = f.back(ka) }); res.panicked || !bytes.Equal(back, a) {
			return true, violf("C20/addr-key-parse", "%s(%x) = %x decodes back to %x (panic %v)", f.name, a, ka, back, res.pv)
		}
		if bytes.Equal(a, b) != bytes.Equal(ka, kb) {
			return true, violf("C20/addr-key-collision", "%s: addresses %x and %x give keys %x and %x", f.name, a, b, ka, kb)
		}
		if len(ka) != 1+sdk.AddrLen {
			return true, violf("C20/addr-key-parse", "%s(%x) = %x is not prefix byte + address", f.name, a, ka)
		}
		if f.name != "auth.AddressStoreKey" { // (the auth store is another store)
			if other, dup := first[ka[0]]; dup {
				return true, violf("C20/addr-key-collision", "%s and %s share the prefix byte %02x", f.name, other, ka[0])
			}
			first[ka[0]] = f.name
		}
	}
	// missed-block keys: (address, index) is recoverable and injective
	ma, mb := postypes.GetValMissedBlockKey(a, it.X), postypes.GetValMissedBlockKey(b, it.Y)
	if !bytes.HasPrefix(ma, postypes.GetValMissedBlockPrefixKey(a)) || len(ma) != 1+sdk.AddrLen+8 {
		return true, violf("C20/addr-key-parse", "missed-block key %x of (%x,%d) does not extend the validator's prefix key", ma, a, it.X)
	}
	if !bytes.Equal(ma[1:1+sdk.AddrLen], a) || int64(binary.LittleEndian.Uint64(ma[1+sdk.AddrLen:])) != it.X {
		return true, violf("C20/addr-key-parse", "missed-block key %x does not carry (%x,%d)", ma, a, it.X)
	}
	same := bytes.Equal(a, b) && it.X == it.Y
	if same != bytes.Equal(ma, mb) {
		return true, violf("C20/addr-key-collision", "missed-block keys of (%x,%d) and (%x,%d): %x and %x", a, it.X, b, it.Y, ma, mb)
	}
	return !bytes.Equal(a, b), nil
}

func c20TimeKeys(it *c20Item) (bool, *Violation) {
	var ta, tb time.Time
	if it.A == "sec" {
		ta, tb = time.Unix(it.X, 0).UTC(), time.Unix(it.Y, 0).UTC()
	} else {
		ta, tb = time.Unix(0, it.X).UTC(), time.Unix(0, it.Y).UTC()
	}
	if it.B != "" {
		var za, zb int
		if _, err := fmt.Sscanf(it.B, "%d:%d", &za, &zb); err == nil {
			ta, tb = ta.In(time.FixedZone("", za)), tb.In(time.FixedZone("", zb))
		}
	}
	ka, kb := postypes.KeyForUnstakingValidators(ta), postypes.KeyForUnstakingValidators(tb)
	back, err := sdk.ParseTimeBytes(ka[1:])
	if err != nil || !back.Equal(ta) {
		return false, violf("C20/time-key-parse", "unstaking key of %s parses back to %s (err %v)", ta, back, err)
	}
	want := 0
	if ta.Before(tb) {
		want = -1
	} else if ta.After(tb) {
		want = 1
	}
	if got := bytes.Compare(ka, kb); got != want {
		return true, violf("C20/time-key-order", "keys of %s and %s compare %d, times compare %d", ta, tb, got, want)
	}
	return true, nil
}

func init() {
	register(&PropDef{ID: "C20",
		Rule: "each case is a batch of 1-12 items: (a) the amino-JSON encoding of a generated value of a wire/storage type (StdTx x 9 message types x nil/ed25519/secp256k1/nested-multisig keys x nil/empty/" +
			"multi-coin fees x memos with quotes/unicode/maximal length x extreme entropy; Base/Module accounts; Validator; signing info; Coins; Int incl. +-(2^255-1); Dec; Address nil/empty/20 bytes; pos " +
			"params; pos/auth/gov genesis states with map sections) checked for JSON, length-prefixed and bare binary round trips by re-encoding equality, and for StdTx canonical sign bytes (equal across " +
			"binary / JSON / permuted-and-reindented JSON, different for a change of chain id, entropy, memo, fee or one message field); (b) a byte string (random, or a valid encoding truncated / " +
			"bit-flipped / extended) offered to one of 11 decoders: error, or a value that re-encodes consistently, never a panic; (c) pairs of (stake, address) and of times (as UTC values and as the same instants in other zones) for power-rank and " +
			"unstaking-queue key parse-back and order. Non-trivial = a value with a nil/empty field or a maximal numeric, a byte string that decodes, or a key pair with equal or byte-boundary powers; " +
			"distinctness = hash of the item",
		Gen: genC20, New: func() interface{} { return &c20Prog{} }, Exec: execC20,
		Assum: []string{"absent and empty values are equivalent (compared by re-encoding)", "ParseValidatorPowerRankKey on wrong-length input is a documented panic and not generated",
			"DeliverTx/CheckTx on arbitrary bytes are covered by C11 and the FuzzDeliverTx target"}})
}

// jsonToTxBytes converts an amino-JSON StdTx into its length-prefixed binary encoding (fuzz seeds).
func jsonToTxBytes(js string) ([]byte, error) {
	var tx authtypes.StdTx
	if err := simCdc.UnmarshalJSON([]byte(js), &tx); err != nil {
		return nil, err
	}
	return simCdc.MarshalBinaryLengthPrefixed(tx)
}
