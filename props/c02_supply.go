package props

// C02 — Token conservation: supply equals balances; only mint/burn move it.

import (
	"fmt"

	sdk "github.com/pokt-network/posmint/types"
	govtypes "github.com/pokt-network/posmint/x/gov/types"
	"pgregory.net/rapid"
)

type c02Oracle struct {
	c             *Case
	pendingAwards sdk.Int
	sawMint       bool
	sawBurn       bool
	sawSend       bool
	aborted       string
}

func totalStake(v *chainView) sdk.Int {
	s := sdk.ZeroInt()
	for _, val := range v.Vals {
		s = s.Add(val.StakedTokens)
	}
	return s
}

func (o *c02Oracle) after(ch *chain, ci *callInfo) *Violation {
	if ci.Panic != nil {
		// a halting ABCI call is another property's subject (C07/C11); the history ends here
		o.aborted = fmt.Sprintf("%s at height %d panicked", ci.Kind, ci.Height)
		o.c.Label("panic:" + ci.Kind + ":" + panicClass(ci.Panic))
		return nil
	}
	v := ci.After
	where := fmt.Sprintf("after %s (block %d tx %d, height %d)", ci.Kind, ci.BlockIx, ci.TxIx, ci.Height)
	if len(v.Undecoded) > 0 {
		return violf("C02/undecodable-state", "%s: %v", where, v.Undecoded)
	}
	if !v.HasSupply {
		return violf("C02/no-supply-record", "%s: no supply record", where)
	}
	sum := v.sumAccounts()
	if !coinsEqual(sum, v.Supply) {
		return violf("C02/supply-differs-from-balances", "%s: recorded supply %s, sum of all balances %s", where, v.Supply, sum)
	}
	for addr, coins := range v.Accounts {
		if anyNegative(coins) {
			return violf("C02/negative-balance", "%s: account %s holds %s", where, addr, coins)
		}
	}
	if ci.Before == nil {
		return nil
	}
	before, afterS := ci.Before.supplyOf(), v.supplyOf()
	delta := afterS.Sub(before)
	switch ci.Kind {
	case "initchain", "restart":
		return nil
	case "tx":
		want := sdk.ZeroInt()
		if ci.Deliver.Code == 0 && ci.Built != nil && ci.Built.Msg != nil {
			switch m := ci.Built.Msg.(type) {
			case govtypes.MsgDAOTransfer:
				if m.Action == govtypes.DAOBurnString {
					want = m.Amount.Neg()
					o.sawBurn = true
				}
			case MsgTestAward:
				o.pendingAwards = o.pendingAwards.Add(m.Amount)
			}
			if ci.Tx.Kind == "send" {
				o.sawSend = true
			}
		}
		if !delta.Equal(want) {
			return violf("C02/supply-changed-by-tx", "%s: %s tx (code %d) changed the total supply by %s, expected %s", where, ci.Tx.Kind, ci.Deliver.Code, delta, want)
		}
	case "check", "simulate", "query", "end", "commit":
		if !delta.IsZero() {
			return violf("C02/supply-changed-by-"+ci.Kind, "%s: total supply changed by %s", where, delta)
		}
	case "begin":
		burned := totalStake(ci.Before).Sub(totalStake(v))
		want := o.pendingAwards.Sub(burned)
		if !delta.Equal(want) {
			sig := "C02/beginblock-supply-delta"
			return violf(sig, "%s: supply changed by %s; awards queued since the last BeginBlock sum to %s and validator stake fell by %s, so %s was expected",
				where, delta, o.pendingAwards, burned, want)
		}
		if o.pendingAwards.IsPositive() {
			o.sawMint = true
		}
		if burned.IsPositive() {
			o.sawBurn = true
		}
		o.pendingAwards = sdk.ZeroInt()
	}
	return nil
}

var c02Profile = &histProfile{ScriptGov: []string{"raisemin", "lowermin", "lowermax"}, ScriptTemplates: slashStateTemplates, Scripts: true, Batches: true, OwnerBias: 3, HugeBalances: true, MaxBlocks: 24, Evidence: 4, Missed: 2, Restart: 10,
	TxKinds: []string{"send", "send", "send", "stake", "stake", "unstake", "unjail", "award", "award", "burn", "dao", "dao", "param", "raw"},
	Modes:   []string{"", "", "", "", "", "", "check", "recheck", "simulate"}, WrongSigner: 12}

func genC02(t *rapid.T, tier string) interface{} {
	pr := *c02Profile
	if tier == "thorough" {
		pr.MaxBlocks = 60
	}
	p := genHistory(t, &pr)
	// 1 history in 5 starts without module accounts (they are created on first use) and opens with transfers
	// to module addresses: whatever an account at such an address holds must stay accounted for
	if rapid.IntRange(0, 4).Draw(t, "lazymodules") == 0 {
		p.Gen.LazyModules = true
		n := rapid.IntRange(1, 3).Draw(t, "earlysends")
		var txs []hTx
		for i := 0; i < n; i++ {
			txs = append(txs, hTx{Kind: "send", From: rapid.IntRange(0, simPoolSize-1).Draw(t, "esfrom"), To: 100 + rapid.IntRange(0, 3).Draw(t, "esmod"),
				Amt: int64(rapid.IntRange(1, 5000).Draw(t, "esamt")), SignWith: -1, KeyInSig: true, Entropy: int64(8800 + i)})
		}
		p.Blocks = append([]hBlock{{DTSec: 1, Proposer: 0, Txs: txs}}, p.Blocks...)
	}
	return p
}

func execC02(prog interface{}, c *Case) *Violation {
	p := prog.(*hProg)
	ch, v := newChain(p, c)
	if v != nil || ch == nil {
		return v
	}
	o := &c02Oracle{c: c, pendingAwards: sdk.ZeroInt()}
	if v := ch.run(o); v != nil {
		return v
	}
	if o.aborted != "" {
		c.Label("aborted-by-panic")
	}
	if o.sawMint {
		c.Label("mint")
	}
	if o.sawBurn {
		c.Label("burn")
	}
	if o.sawSend {
		c.Label("send")
	}
	if o.sawMint && o.sawBurn && o.sawSend {
		c.NonTrivial()
	}
	return nil
}

func init() {
	register(&PropDef{
		ID: "C02",
		Rule: "each case is a generated chain history (genesis with 1-6 validators, accounts of all key types, generated pos/auth/gov parameters; up to 24 (thorough 60) blocks with time steps, " +
			"missed votes, double-sign evidence, restarts and 0-4 transactions of every bundled message type plus harness award/burn messages, amounts at zero/dust/exactly-the-balance/over-the-balance, " +
			"fees at/below/above the requirement, CheckTx/Simulate interleaved) executed through InitChain/BeginBlock/DeliverTx/EndBlock/Commit on a fully wired application; after EVERY ABCI call: " +
			"supply == sum of all account balances, no negative balance, and the per-call supply delta rule of the statement. Non-trivial = the history contains a mint, a burn and a successful send; " +
			"distinctness = hash of the program",
		Gen:       genC02,
		New:       func() interface{} { return &hProg{} },
		Exec:      execC02,
		RecordCur: func(interface{}) bool { return true },
		Assum: []string{"state is read from the root multistore's working state and decoded with amino, independently of the keepers", "a BeginBlock/DeliverTx panic ends the history (owned by C07/C11)",
			"awards are requested by a harness module calling the public Keeper.AwardCoinsTo during DeliverTx"},
	})
}
