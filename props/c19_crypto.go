package props

// C19 — Signatures bind key and message; stored keys survive export/import.
// Part 1: oracle by construction over generated keys, messages and (nested) multisignatures.
// Part 2: model-based state machine over the in-memory keybase.

import (
	"bytes"
	"crypto/sha256"
	"encoding/binary"
	"fmt"
	"github.com/pokt-network/posmint/crypto/keys/mintkey"
	"sort"
	"strings"
	"sync"

	tmed "github.com/tendermint/tendermint/crypto/ed25519"
	tmsecp "github.com/tendermint/tendermint/crypto/secp256k1"
	"pgregory.net/rapid"

	"github.com/pokt-network/posmint/crypto"
	"github.com/pokt-network/posmint/crypto/keys"
	sdk "github.com/pokt-network/posmint/types"
)

// ---------------------------------------------------------------------------------------------
// program

type c19Key struct {
	Kind string   `json:"kind"` // ed secp multi
	Seed int      `json:"seed,omitempty"`
	Kids []c19Key `json:"kids,omitempty"`
}

type c19Sig struct {
	Key  c19Key `json:"key"`
	Msg  string `json:"msg"`  // hex
	Path []int  `json:"path"` // where the mutation applies (child indices; empty = root)
	Mut  string `json:"mut"`  // "" none; leaf: wrongkey othermsg flip trunc ext empty; multi: drop swap dup extra foreign; verify: verifymsg verifykey
}

type c19KBOp struct {
	Op    string `json:"op"` // create importobj importarmor update delete sign exportarmor exportobj get
	Addr  int    `json:"addr,omitempty"`
	Seed  int    `json:"seed,omitempty"`
	Pass  int    `json:"pass,omitempty"`  // index into c19Passes: the passphrase offered
	Pass2 int    `json:"pass2,omitempty"` // new / encryption passphrase
	Right bool   `json:"right,omitempty"` // offer the currently valid passphrase instead of Pass
	Exp   int    `json:"exp,omitempty"`   // which earlier export to import
	KB2   bool   `json:"kb2,omitempty"`   // import into the second keybase
	Msg   string `json:"msg,omitempty"`
}

type c19Prog struct {
	Sigs []c19Sig  `json:"sigs,omitempty"`
	KB   []c19KBOp `json:"kb,omitempty"`
}

// passphrases, with near misses of each other: a trailing space, one more character at the end of a long one, the same
// long one cut short, pairs that agree on their first 32 / 64 / 72 bytes (block sizes of the primitives a key
// derivation may be built from)
var c19Passes = []string{"", "pass", "p", "пароль✓ζ", strings.Repeat("long-passphrase-", 13), "pass ",
	strings.Repeat("long-passphrase-", 13) + "!", strings.Repeat("long-passphrase-", 13)[:207],
	strings.Repeat("a", 72), strings.Repeat("a", 72) + "b", strings.Repeat("a", 73), strings.Repeat("q", 64), strings.Repeat("q", 64) + "r", strings.Repeat("z", 32) + "1", strings.Repeat("z", 32) + "2"}

// ---------------------------------------------------------------------------------------------
// generator

func genC19Key(depth int) func(t *rapid.T) c19Key {
	return func(t *rapid.T) c19Key {
		k := rapid.IntRange(0, 5).Draw(t, "kind")
		if depth >= 3 && k >= 4 {
			k = 0
		}
		switch {
		case k <= 1:
			return c19Key{Kind: "ed", Seed: rapid.IntRange(0, 1000000).Draw(t, "seed")}
		case k <= 3:
			return c19Key{Kind: "secp", Seed: rapid.IntRange(0, 1000000).Draw(t, "seed")}
		}
		// 1-5 component keys (fewer when nested); a component may be listed twice
		n := rapid.SampledFrom([]int{1, 2, 2, 3, 3, 4, 5}).Draw(t, "nkids")
		if depth >= 1 && n > 3 {
			n = 3
		}
		key := c19Key{Kind: "multi"}
		for i := 0; i < n; i++ {
			if i > 0 && rapid.IntRange(0, 7).Draw(t, "samekid") == 0 {
				key.Kids = append(key.Kids, key.Kids[0])
				continue
			}
			key.Kids = append(key.Kids, genC19Key(depth+1)(t))
		}
		return key
	}
}

func genC19(t *rapid.T, tier string) interface{} {
	p := &c19Prog{}
	if rapid.IntRange(0, 9).Draw(t, "keybase") == 0 {
		maxOps := 8
		p.KB = rapid.SliceOfN(rapid.Custom(func(t *rapid.T) c19KBOp {
			o := c19KBOp{Op: rapid.SampledFrom([]string{"create", "importobj", "importarmor", "importarmor", "importbad", "importsecp", "update", "update", "delete", "sign", "sign", "exportarmor", "exportarmor", "exportobj", "get", "setcoinbase", "getcoinbase"}).Draw(t, "op")}
			o.Addr = rapid.IntRange(0, 5).Draw(t, "addr")
			o.Seed = rapid.IntRange(0, 3).Draw(t, "seed")
			o.Pass = rapid.IntRange(0, len(c19Passes)-1).Draw(t, "pass")
			o.Pass2 = rapid.IntRange(0, len(c19Passes)-1).Draw(t, "pass2")
			o.Right = rapid.IntRange(0, 2).Draw(t, "right") != 0
			o.Exp = rapid.IntRange(0, 3).Draw(t, "exp")
			o.KB2 = rapid.Bool().Draw(t, "kb2")
			o.Msg = fmt.Sprintf("%x", rapid.SliceOfN(rapid.Byte(), 0, 40).Draw(t, "msg"))
			return o
		}), 2, maxOps).Draw(t, "kbops")
		// always start with something to work on
		p.KB = append([]c19KBOp{{Op: "create", Pass: 1}}, p.KB...)
		return p
	}
	p.Sigs = rapid.SliceOfN(rapid.Custom(func(t *rapid.T) c19Sig {
		s := c19Sig{Key: genC19Key(0)(t)}
		n := rapid.SampledFrom([]int{0, 1, 32, 64, 200, 4096}).Draw(t, "msglen")
		s.Msg = fmt.Sprintf("%x", rapid.SliceOfN(rapid.Byte(), n, n).Draw(t, "msg"))
		s.Path = rapid.SliceOfN(rapid.IntRange(0, 3), 0, 2).Draw(t, "path")
		s.Mut = rapid.SampledFrom([]string{"", "", "wrongkey", "othermsg", "flip", "trunc", "ext", "empty", "drop", "swap", "dup", "extra", "foreign", "verifymsg", "verifykey",
			"ctrunc", "crandom", "cplain", "cext", "crosskey", "crosskey"}).Draw(t, "mut")
		return s
	}), 1, 12).Draw(t, "sigs")
	return p
}

// ---------------------------------------------------------------------------------------------
// keys and signatures

var c19SecpOnce sync.Once
var c19SecpList [][]byte

// c19SecpSecrets: four secrets for secp256k1 keys; the private keys of the last two start with a zero byte
// (found by search, 1 key in 256 does)
func c19SecpSecrets() [][]byte {
	c19SecpOnce.Do(func() {
		c19SecpList = [][]byte{c19Secret(7001), c19Secret(7002)}
		for i := 0; len(c19SecpList) < 4 && i < 100000; i++ {
			sec := c19Secret(800000 + i)
			if p := tmsecp.GenPrivKeySecp256k1(sec); p[0] == 0 {
				c19SecpList = append(c19SecpList, sec)
			}
		}
		for len(c19SecpList) < 4 {
			c19SecpList = append(c19SecpList, c19Secret(7003))
		}
	})
	return c19SecpList
}

func c19Secret(seed int) []byte {
	b := make([]byte, 8)
	binary.BigEndian.PutUint64(b, uint64(seed))
	return append([]byte("c19-"), b...)
}

func c19Priv(k c19Key) crypto.PrivateKey {
	if k.Kind == "ed" {
		return crypto.Ed25519PrivateKey(tmed.GenPrivKeyFromSecret(c19Secret(k.Seed)))
	}
	return crypto.Secp256k1PrivateKey(tmsecp.GenPrivKeySecp256k1(c19Secret(k.Seed)))
}

func c19Pub(k c19Key) crypto.PublicKey {
	if k.Kind != "multi" {
		return c19Priv(k).PublicKey()
	}
	var ks []crypto.PublicKey
	for _, kid := range k.Kids {
		ks = append(ks, c19Pub(kid))
	}
	return crypto.PublicKeyMultiSignature{PublicKeys: ks}
}

// c19Sign builds the signature for key k over msg, applying mutation mut at path; applied reports
// whether the mutation took effect (so the signature must NOT verify).
func c19Sign(k c19Key, msg []byte, path []int, mut string, applied *bool) []byte {
	here := len(path) == 0
	if k.Kind != "multi" {
		signer, m := k, msg
		if here {
			switch mut {
			case "wrongkey":
				signer.Seed = k.Seed + 7919
				*applied = true
			case "othermsg":
				m = append(append([]byte{}, msg...), 0x01)
				*applied = true
			}
		}
		sig, err := c19Priv(signer).Sign(m)
		if err != nil {
			panic(err)
		}
		if here {
			switch mut {
			case "flip":
				sig = append([]byte{}, sig...)
				sig[len(sig)/3] ^= 0x04
				*applied = true
			case "trunc":
				sig = sig[:len(sig)-1]
				*applied = true
			case "ext":
				sig = append(append([]byte{}, sig...), 0x00)
				*applied = true
			case "empty":
				sig = []byte{}
				*applied = true
			}
		}
		return sig
	}
	var sigs [][]byte
	for i, kid := range k.Kids {
		var sub []int
		m := ""
		if !here && len(path) > 0 && path[0]%len(k.Kids) == i {
			sub, m = path[1:], mut
			if len(sub) == 0 {
				sub = []int{}
			}
			sigs = append(sigs, c19Sign(kid, msg, sub, m, applied))
			continue
		}
		none := false
		sigs = append(sigs, c19Sign(kid, msg, []int{0, 0, 0, 0}, "", &none))
	}
	if here {
		switch mut {
		case "drop":
			sigs = sigs[:len(sigs)-1]
			*applied = true
		case "swap":
			if len(k.Kids) >= 2 && !bytes.Equal(c19Pub(k.Kids[0]).Bytes(), c19Pub(k.Kids[1]).Bytes()) {
				sigs[0], sigs[1] = sigs[1], sigs[0]
				*applied = true
			}
		case "dup":
			if len(k.Kids) >= 2 && !bytes.Equal(c19Pub(k.Kids[0]).Bytes(), c19Pub(k.Kids[1]).Bytes()) {
				sigs[1] = sigs[0]
				*applied = true
			}
		case "extra":
			sigs = append(sigs, sigs[0])
			*applied = true
		case "foreign":
			none := false
			sigs[0] = c19Sign(c19Key{Kind: "ed", Seed: 424242}, msg, []int{0, 0, 0, 0}, "", &none)
			*applied = true
		}
	}
	return crypto.MultiSignature{Sigs: sigs}.Marshal()
}

func execC19(prog interface{}, c *Case) *Violation {
	p := prog.(*c19Prog)
	for i := range p.Sigs {
		s := &p.Sigs[i]
		msg := unhex(s.Msg)
		pub := c19Pub(s.Key)
		applied := false
		path := s.Path
		if len(path) == 0 {
			path = []int{}
		}
		sig := c19Sign(s.Key, msg, path, s.Mut, &applied)
		vmsg, vpub := msg, pub
		switch s.Mut {
		case "verifymsg": // verify a genuine signature against another message
			vmsg = append([]byte{0x7e}, msg...)
			applied = true
		case "verifykey": // ... under another key of the same shape
			other := s.Key
			bumpSeeds(&other)
			vpub = c19Pub(other)
			applied = true
		}
		anyResult := false
		switch s.Mut {
		case "ctrunc": // the encoded signature (container and all) loses its last byte
			if len(sig) > 0 {
				sig = append([]byte{}, sig[:len(sig)-1]...)
				applied = true
			}
		case "crandom": // bytes that are no signature at all
			sum := sha256.Sum256(append([]byte("c19"), msg...))
			sig = append(sum[:], sum[:]...)
			applied = true
		case "cplain": // a multisignature key is offered the plain signature of its first leaf (and a leaf key a container)
			none := false
			if s.Key.Kind == "multi" {
				leaf := s.Key
				for leaf.Kind == "multi" {
					leaf = leaf.Kids[0]
				}
				sig = c19Sign(leaf, msg, []int{0, 0, 0, 0}, "", &none)
			} else {
				sig = crypto.MultiSignature{Sigs: [][]byte{sig}}.Marshal()
			}
			applied = true
		case "cext": // trailing garbage after the encoded signature: must not crash; a decoder may ignore it
			sig = append(append([]byte{}, sig...), 0x00, 0xff)
			applied, anyResult = true, s.Key.Kind == "multi"
		case "crosskey": // a genuine signature offered to a key of another shape
			none := false
			switch s.Key.Kind {
			case "ed":
				vpub = c19Pub(c19Key{Kind: "secp", Seed: s.Key.Seed})
			case "secp":
				vpub = c19Pub(c19Key{Kind: "ed", Seed: s.Key.Seed})
			default:
				// the container is verified by its first component alone
				vpub = c19Pub(s.Key.Kids[0])
				_ = none
			}
			applied = true
		}
		var got bool
		res := catch(func() { got = vpub.VerifyBytes(vmsg, sig) })
		desc := fmt.Sprintf("key %s, message of %d bytes, mutation %q at %v", keyShape(s.Key), len(msg), s.Mut, s.Path)
		if res.panicked {
			return violf("C19/verify-panics", "%s: VerifyBytes panicked: %v", desc, res.pv)
		}
		if anyResult {
			c.Eval(fmt.Sprintf("%v", *s), true)
			continue
		}
		want := !applied
		if got != want {
			sig := "C19/forged-signature-accepted"
			if want {
				sig = "C19/genuine-signature-rejected"
			}
			return violf(sig, "%s: VerifyBytes = %v, expected %v", desc, got, want)
		}
		c.Eval(fmt.Sprintf("%v", *s), applied)
		c.Label("sig:" + s.Key.Kind + ":" + map[bool]string{true: "negative", false: "positive"}[applied])
	}
	if len(p.KB) > 0 {
		return execC19KB(p, c)
	}
	return nil
}

func bumpSeeds(k *c19Key) {
	if k.Kind != "multi" {
		k.Seed += 104729
		return
	}
	bumpSeeds(&k.Kids[0])
}

func keyShape(k c19Key) string {
	if k.Kind != "multi" {
		return k.Kind
	}
	s := "multi("
	for i, kid := range k.Kids {
		if i > 0 {
			s += ","
		}
		s += keyShape(kid)
	}
	return s + ")"
}

// ---------------------------------------------------------------------------------------------
// keybase state machine

type c19Entry struct {
	pub  crypto.PublicKey
	pass string
}

type c19Export struct {
	armor string
	pass  string
	pub   crypto.PublicKey
}

func execC19KB(p *c19Prog, c *Case) *Violation {
	kbs := []keys.Keybase{keys.NewInMemory(), keys.NewInMemory()}
	models := []map[string]*c19Entry{{}, {}}
	var order []string // addresses in creation order (first keybase)
	var exports []c19Export
	wrongThenRight := false
	coinbaseOps := 0
	lastWrong := map[string]bool{}
	addrOf := func(i int) (sdk.Address, string, bool) {
		if len(order) == 0 {
			return nil, "", false
		}
		a := order[mod(i, len(order))]
		return sdk.Address([]byte(a)), a, true
	}
	checkList := func(step int, op string) *Violation {
		for ki, kb := range kbs {
			list, err := kb.List()
			if err != nil {
				return violf("C19/keybase/list", "step %d (%s): List failed: %v", step, op, err)
			}
			got := map[string]string{}
			for _, kp := range list {
				got[string(kp.GetAddress())] = string(kp.PublicKey.RawBytes())
			}
			if len(got) != len(models[ki]) {
				return violf("C19/keybase/list", "step %d (%s): keybase %d lists %d keys, model %d", step, op, ki, len(got), len(models[ki]))
			}
			for a, e := range models[ki] {
				if got[a] != string(e.pub.RawBytes()) {
					return violf("C19/keybase/list", "step %d (%s): keybase %d: key %x missing or with another public key", step, op, ki, a)
				}
			}
		}
		return nil
	}
	for step, o := range p.KB {
		kb, model := kbs[0], models[0]
		switch o.Op {
		case "create":
			kp, err := kb.Create(c19Passes[mod(o.Pass, len(c19Passes))])
			if err != nil {
				return violf("C19/keybase/create", "step %d: Create failed: %v", step, err)
			}
			a := string(kp.GetAddress())
			if _, dup := model[a]; dup {
				return violf("C19/keybase/create", "step %d: Create returned an existing address", step)
			}
			model[a] = &c19Entry{pub: kp.PublicKey, pass: c19Passes[mod(o.Pass, len(c19Passes))]}
			order = append(order, a)
		case "importobj":
			priv := tmed.GenPrivKeyFromSecret(c19Secret(900 + o.Seed))
			pk := crypto.Ed25519PrivateKey(priv)
			a := string(sdk.Address(pk.PublicKey().Address()))
			pass := c19Passes[mod(o.Pass2, len(c19Passes))]
			kp, err := kb.ImportPrivateKeyObject(priv, pass)
			if _, exists := model[a]; exists {
				if err == nil {
					return violf("C19/keybase/import-overwrites", "step %d: ImportPrivateKeyObject overwrote the existing key %x", step, a)
				}
			} else {
				if err != nil {
					return violf("C19/keybase/import", "step %d: ImportPrivateKeyObject failed: %v", step, err)
				}
				if string(kp.GetAddress()) != a {
					return violf("C19/keybase/import", "step %d: imported key has another address", step)
				}
				model[a] = &c19Entry{pub: pk.PublicKey(), pass: pass}
				order = append(order, a)
			}
		case "importsecp":
			// a secp256k1 key arrives as an armor made outside the keybase; every fourth secret starts with a zero byte
			secret := c19SecpSecrets()[mod(o.Seed+o.Exp, 4)]
			tmPriv := tmsecp.GenPrivKeySecp256k1(secret)
			priv := crypto.Secp256k1PrivateKey(tmPriv)
			wantPub := crypto.Secp256k1PublicKey(tmPriv.PubKey().(tmsecp.PubKeySecp256k1))
			pass, pass2 := c19Passes[mod(o.Pass, len(c19Passes))], c19Passes[mod(o.Pass2, len(c19Passes))]
			armor, err := mintkey.EncryptArmorPrivKey(priv, pass, "")
			if err != nil {
				return violf("C19/keybase/armor", "step %d: EncryptArmorPrivKey failed: %v", step, err)
			}
			a := string(sdk.Address(wantPub.Address()))
			kp, err := kb.ImportPrivKey(armor, pass, pass2)
			if _, exists := model[a]; exists {
				if err == nil {
					return violf("C19/keybase/import-overwrites", "step %d: ImportPrivKey overwrote the existing key %x", step, a)
				}
				continue
			}
			if err != nil {
				return violf("C19/keybase/export-import", "step %d: importing a secp256k1 armor under the right passphrase failed: %v", step, err)
			}
			if !bytes.Equal(kp.PublicKey.RawBytes(), wantPub.RawBytes()) || string(kp.GetAddress()) != a {
				return violf("C19/keybase/export-import", "step %d: a secp256k1 key (secret starting %02x) came out of its armor as another key: got %x want %x", step, tmPriv[0], kp.PublicKey.RawBytes(), wantPub.RawBytes())
			}
			model[a] = &c19Entry{pub: wantPub, pass: pass2}
			order = append(order, a)
			sig, pub, err := kb.Sign(sdk.Address([]byte(a)), pass2, []byte("secp after import"))
			if err != nil || !wantPub.VerifyBytes([]byte("secp after import"), sig) || !bytes.Equal(pub.RawBytes(), wantPub.RawBytes()) {
				return violf("C19/keybase/export-import", "step %d: the imported secp256k1 key does not sign verifiably: %v", step, err)
			}
		case "importbad":
			// a damaged armor (one character changed, or cut short) offered with the right passphrase: refused, no
			// crash, nothing stored (the listing is compared with the model after every step)
			if len(exports) == 0 {
				continue
			}
			ex := exports[mod(o.Exp, len(exports))]
			bad := []byte(ex.armor)
			if o.Seed%2 == 0 && len(bad) > 40 {
				pos := 30 + mod(o.Addr*37+o.Pass, len(bad)-40)
				if bad[pos] == 'A' {
					bad[pos] = 'B'
				} else {
					bad[pos] = 'A'
				}
			} else {
				bad = bad[:len(bad)/2]
			}
			if o.KB2 {
				kb = kbs[1]
			}
			var err error
			res := catch(func() { _, err = kb.ImportPrivKey(string(bad), ex.pass, c19Passes[mod(o.Pass2, len(c19Passes))]) })
			if res.panicked {
				return violf("C19/keybase/import-panics", "step %d: ImportPrivKey of a damaged armor panicked: %v", step, res.pv)
			}
			if err == nil && string(bad) != ex.armor {
				a := string(sdk.Address(ex.pub.Address()))
				target := models[0]
				if o.KB2 {
					target = models[1]
				}
				if _, exists := target[a]; !exists {
					// accepted although damaged: at least it must then be the same key (e.g. the change hit armor padding)
					kp, gerr := kb.Get(sdk.Address([]byte(a)))
					if gerr != nil || !bytes.Equal(kp.PublicKey.RawBytes(), ex.pub.RawBytes()) {
						return violf("C19/keybase/damaged-armor-imported", "step %d: a damaged armor was imported as another key", step)
					}
					target[a] = &c19Entry{pub: ex.pub, pass: c19Passes[mod(o.Pass2, len(c19Passes))]}
					if !o.KB2 {
						order = append(order, a)
					}
				}
			}
		case "importarmor":
			if len(exports) == 0 {
				continue
			}
			ex := exports[mod(o.Exp, len(exports))]
			ki := 0
			if o.KB2 {
				ki = 1
			}
			kb, model = kbs[ki], models[ki]
			dp := c19Passes[mod(o.Pass, len(c19Passes))]
			if o.Right {
				dp = ex.pass
			}
			ep := c19Passes[mod(o.Pass2, len(c19Passes))]
			a := string(sdk.Address(ex.pub.Address()))
			kp, err := kb.ImportPrivKey(ex.armor, dp, ep)
			_, exists := model[a]
			switch {
			case dp != ex.pass:
				if err == nil {
					return violf("C19/keybase/wrong-passphrase-yields-key", "step %d: ImportPrivKey with a wrong passphrase succeeded", step)
				}
			case exists:
				if err == nil {
					return violf("C19/keybase/import-overwrites", "step %d: ImportPrivKey overwrote the existing key %x", step, a)
				}
			default:
				if err != nil {
					return violf("C19/keybase/export-import", "step %d: importing an export under the right passphrase failed: %v", step, err)
				}
				if !bytes.Equal(kp.PublicKey.RawBytes(), ex.pub.RawBytes()) || string(kp.GetAddress()) != a {
					return violf("C19/keybase/export-import", "step %d: export/import changed the key: got %x want %x", step, kp.PublicKey.RawBytes(), ex.pub.RawBytes())
				}
				model[a] = &c19Entry{pub: ex.pub, pass: ep}
				if ki == 0 {
					order = append(order, a)
				}
				// the imported key signs verifiably under its passphrase
				sig, pub, err := kb.Sign(sdk.Address([]byte(a)), ep, []byte("after import"))
				if err != nil || !pub.VerifyBytes([]byte("after import"), sig) || !bytes.Equal(pub.RawBytes(), ex.pub.RawBytes()) {
					return violf("C19/keybase/export-import", "step %d: the imported key cannot sign verifiably: %v", step, err)
				}
			}
		default:
			addr, a, ok := addrOf(o.Addr)
			if !ok {
				continue
			}
			e, exists := model[a]
			pass := c19Passes[mod(o.Pass, len(c19Passes))]
			if o.Right && exists {
				pass = e.pass
			}
			right := exists && pass == e.pass
			var before keys.KeyPair
			if exists {
				before, _ = kb.Get(addr)
			}
			var err error
			switch o.Op {
			case "update":
				np := c19Passes[mod(o.Pass2, len(c19Passes))]
				err = kb.Update(addr, pass, np)
				if right && err == nil {
					e.pass = np
				}
			case "delete":
				err = kb.Delete(addr, pass)
				if right && err == nil {
					delete(model, a)
				}
			case "sign":
				msg := unhex(o.Msg)
				var sig []byte
				var pub crypto.PublicKey
				sig, pub, err = kb.Sign(addr, pass, msg)
				if right && err == nil {
					if !bytes.Equal(pub.RawBytes(), e.pub.RawBytes()) || !e.pub.VerifyBytes(msg, sig) {
						return violf("C19/keybase/sign", "step %d: Sign returned a signature that does not verify under the stored key", step)
					}
				}
			case "exportarmor":
				ep := c19Passes[mod(o.Pass2, len(c19Passes))]
				var armor string
				armor, err = kb.ExportPrivKeyEncryptedArmor(addr, pass, ep, "hint")
				if right && err == nil {
					exports = append(exports, c19Export{armor: armor, pass: ep, pub: e.pub})
				}
			case "exportobj":
				var priv crypto.PrivateKey
				priv, err = kb.ExportPrivateKeyObject(addr, pass)
				if right && err == nil && !bytes.Equal(priv.PublicKey().RawBytes(), e.pub.RawBytes()) {
					return violf("C19/keybase/export", "step %d: ExportPrivateKeyObject returned another key", step)
				}
			case "setcoinbase", "getcoinbase":
				// traffic only: which key the node signs with is not part of the statement, so nothing is asserted
				// about the answer - but selecting a key must not change what the passphrase-checked operations
				// that follow do with it
				if o.Op == "setcoinbase" {
					_ = kb.SetCoinbase(addr)
				} else {
					_, _ = kb.GetCoinbase()
				}
				coinbaseOps++
				continue
			case "get":
				var kp keys.KeyPair
				kp, err = kb.Get(addr)
				if exists != (err == nil) {
					return violf("C19/keybase/get", "step %d: Get(%x) err=%v but model exists=%v", step, a, err, exists)
				}
				if exists && !bytes.Equal(kp.PublicKey.RawBytes(), e.pub.RawBytes()) {
					return violf("C19/keybase/get", "step %d: Get returned another public key", step)
				}
				continue
			}
			if right && err != nil {
				return violf("C19/keybase/right-passphrase-refused", "step %d: %s with the right passphrase failed: %v", step, o.Op, err)
			}
			if !right {
				if err == nil {
					return violf("C19/keybase/wrong-passphrase-accepted", "step %d: %s on %x succeeded with a wrong passphrase (exists=%v)", step, o.Op, a, exists)
				}
				if exists {
					// nothing may have changed: same stored record, the old passphrase still works
					afterKP, gerr := kb.Get(addr)
					if gerr != nil || afterKP.PrivKeyArmor != before.PrivKeyArmor {
						return violf("C19/keybase/wrong-passphrase-altered-key", "step %d: a failed %s altered or removed the stored key %x", step, o.Op, a)
					}
					lastWrong[a] = true
				}
			} else if lastWrong[a] {
				wrongThenRight = true
			}
		}
		if v := checkList(step, o.Op); v != nil {
			return v
		}
	}
	// finally every remaining key still opens with its model passphrase
	var as []string
	for a := range models[0] {
		as = append(as, a)
	}
	sort.Strings(as)
	for _, a := range as {
		if _, err := kbs[0].ExportPrivateKeyObject(sdk.Address([]byte(a)), models[0][a].pass); err != nil {
			return violf("C19/keybase/passphrase-lost", "at the end key %x no longer opens with its passphrase: %v", a, err)
		}
	}
	c.Eval(fmt.Sprintf("%v", p.KB), wrongThenRight)
	c.Label("keybase-program")
	if coinbaseOps > 0 {
		c.Label("keybase-program-with-coinbase-selection")
	}
	return nil
}

func init() {
	register(&PropDef{ID: "C19",
		Rule: "nine in ten cases are batches of 1-12 signature evaluations: a key tree (ed25519 / secp256k1 leaves from drawn seeds, multisignature nodes with 2-4 children, nesting <= 2), a message of " +
			"0..4096 bytes and one mutation (none; leaf: signed by another key, other message, bit flip, truncation, extension, empty; multisig node: drop / swap / duplicate / extra / foreign component; or " +
			"verification against another message / another key); VerifyBytes must be true exactly when no mutation took effect. One in ten cases is a keybase program of 3-9 operations (create, import raw key, " +
			"import an earlier export into the same or a second keybase, update, delete, sign, export armored / raw, get, select / read the coinbase key) with right and wrong passphrases drawn from {empty, ASCII, one char, unicode, 208 chars, " +
			"trailing space, and near misses of each other: one more character after 208 / 72 / 64 characters, one fewer, a different 33rd}, compared with a map model after every operation incl. List(). Non-trivial = a negative verification case, or a keybase program in which a wrong-passphrase operation is followed " +
			"by a right-passphrase operation on the same key; distinctness = hash of the evaluation",
		Gen: genC19, New: func() interface{} { return &c19Prog{} }, Exec: execC19,
		Assum: []string{"ciphertext bytes are not compared (random salt)", "keys created by Keybase.Create come from the system's randomness; only their reported address/public key enters the model",
			"the in-memory keybase is used (the LevelDB-backed lazy keybase shares the same implementation behind a file lock)"}})
}
