package props

// SimApp: a chain assembled from posmint's BaseApp + x/auth + x/pos + x/gov the way an embedding
// application does it, plus a harness-side module "vhook" whose messages call the public
// Keeper.AwardCoinsTo / Keeper.BurnValidator during DeliverTx like a foreign module would.

import (
	"encoding/binary"
	"fmt"
	"sync"

	abci "github.com/tendermint/tendermint/abci/types"
	tmed "github.com/tendermint/tendermint/crypto/ed25519"
	tmsecp "github.com/tendermint/tendermint/crypto/secp256k1"
	"github.com/tendermint/tendermint/libs/log"
	dbm "github.com/tendermint/tm-db"

	"github.com/pokt-network/posmint/baseapp"
	"github.com/pokt-network/posmint/codec"
	"github.com/pokt-network/posmint/crypto"
	stypes "github.com/pokt-network/posmint/store/types"
	sdk "github.com/pokt-network/posmint/types"
	"github.com/pokt-network/posmint/types/module"
	"github.com/pokt-network/posmint/x/auth"
	authkeeper "github.com/pokt-network/posmint/x/auth/keeper"
	authtypes "github.com/pokt-network/posmint/x/auth/types"
	"github.com/pokt-network/posmint/x/gov"
	govkeeper "github.com/pokt-network/posmint/x/gov/keeper"
	govtypes "github.com/pokt-network/posmint/x/gov/types"
	"github.com/pokt-network/posmint/x/pos"
	poskeeper "github.com/pokt-network/posmint/x/pos/keeper"
	postypes "github.com/pokt-network/posmint/x/pos/types"
)

const simChainID = "verif-chain"

// a second denomination some genesis accounts hold: a fee may name any denomination the signer owns
const simDustDenom = "dust"

// ---------------------------------------------------------------------------------------------
// vhook module

type MsgTestAward struct {
	From   sdk.Address `json:"from"`
	To     sdk.Address `json:"to"`
	Amount sdk.Int     `json:"amount"`
}

type MsgTestBurn struct {
	From     sdk.Address `json:"from"`
	Target   sdk.Address `json:"target"`
	Severity sdk.Dec     `json:"severity"`
}

const (
	vhookRoute   = "vhook"
	vhookFeeAwd  = 50
	vhookFeeBurn = 60
)

func (m MsgTestAward) Route() string { return vhookRoute }
func (m MsgTestAward) Type() string  { return "test_award" }
func (m MsgTestAward) ValidateBasic() sdk.Error {
	// the recipient may be any address, the empty one included: Keeper.AwardCoinsTo is an API for other modules and
	// takes whatever address it is given
	if m.From.Empty() || m.Amount.IsNegative() {
		return sdk.ErrUnknownRequest("bad award")
	}
	return nil
}
func (m MsgTestAward) GetSignBytes() []byte   { return sdk.MustSortJSON(simCdc.MustMarshalJSON(m)) }
func (m MsgTestAward) GetSigner() sdk.Address { return m.From }
func (m MsgTestAward) GetFee() sdk.Int        { return sdk.NewInt(vhookFeeAwd) }

func (m MsgTestBurn) Route() string { return vhookRoute }
func (m MsgTestBurn) Type() string  { return "test_burn" }
func (m MsgTestBurn) ValidateBasic() sdk.Error {
	if m.From.Empty() || m.Target.Empty() || m.Severity.IsNil() || m.Severity.IsNegative() {
		return sdk.ErrUnknownRequest("bad burn")
	}
	return nil
}
func (m MsgTestBurn) GetSignBytes() []byte   { return sdk.MustSortJSON(simCdc.MustMarshalJSON(m)) }
func (m MsgTestBurn) GetSigner() sdk.Address { return m.From }
func (m MsgTestBurn) GetFee() sdk.Int        { return sdk.NewInt(vhookFeeBurn) }

// ---------------------------------------------------------------------------------------------
// codec and fee table (process-wide, set once)

var (
	simCdc     *codec.Codec
	simCdcOnce sync.Once
)

var simPosFees = map[string]int64{
	"send":                      100,
	"stake_validator":           200,
	"begin_unstaking_validator": 300,
	"unjail":                    400,
}

func simInit() {
	simCdcOnce.Do(func() {
		c := codec.New()
		sdk.RegisterCodec(c)
		codec.RegisterCrypto(c)
		auth.RegisterCodec(c)
		postypes.RegisterCodec(c)
		govtypes.RegisterCodec(c)
		c.RegisterConcrete(MsgTestAward{}, "vhook/MsgTestAward", nil)
		c.RegisterConcrete(MsgTestBurn{}, "vhook/MsgTestBurn", nil)
		simCdc = c
		postypes.PosFeeMap = simPosFees
	})
}

// ---------------------------------------------------------------------------------------------
// deterministic key pool

type simKey struct {
	Priv  crypto.PrivateKey // nil for multisig keys
	Pub   crypto.PublicKey
	Addr  sdk.Address
	Parts []int // component key indices for multisig keys
	Kind  string
}

const simPoolSize = 14

// pool layout: 0-7 ed25519, 8-9 secp256k1, 10 multisig(11,12), 11 ed25519, 12 secp256k1, 13 multisig(10,8)
func simKeyPool(seed int) []simKey {
	pool := make([]simKey, simPoolSize)
	secret := func(i int) []byte {
		b := make([]byte, 16)
		binary.BigEndian.PutUint64(b, uint64(seed))
		binary.BigEndian.PutUint64(b[8:], uint64(i))
		return append([]byte("verif-key-"), b...)
	}
	ed := func(i int) simKey {
		p := crypto.Ed25519PrivateKey(tmed.GenPrivKeyFromSecret(secret(i)))
		return simKey{Priv: p, Pub: p.PublicKey(), Addr: sdk.Address(p.PublicKey().Address()), Kind: "ed25519"}
	}
	secp := func(i int) simKey {
		p := crypto.Secp256k1PrivateKey(tmsecp.GenPrivKeySecp256k1(secret(i)))
		return simKey{Priv: p, Pub: p.PublicKey(), Addr: sdk.Address(p.PublicKey().Address()), Kind: "secp256k1"}
	}
	for i := 0; i <= 7; i++ {
		pool[i] = ed(i)
	}
	pool[8], pool[9] = secp(8), secp(9)
	pool[11], pool[12] = ed(11), secp(12)
	multi := func(parts ...int) simKey {
		var keys []crypto.PublicKey
		for _, p := range parts {
			keys = append(keys, pool[p].Pub)
		}
		pk := crypto.PublicKeyMultiSignature{PublicKeys: keys}
		return simKey{Pub: pk, Addr: sdk.Address(pk.Address()), Parts: parts, Kind: "multisig"}
	}
	pool[10] = multi(11, 12)
	pool[13] = multi(10, 8)
	return pool
}

// simSign signs msg with key idx of the pool (recursively for multisig keys).
func simSign(pool []simKey, idx int, msg []byte) []byte {
	k := pool[idx]
	if k.Priv != nil {
		sig, err := k.Priv.Sign(msg)
		if err != nil {
			panic(err)
		}
		return sig
	}
	ms := crypto.MultiSignature{}
	for _, p := range k.Parts {
		ms.Sigs = append(ms.Sigs, simSign(pool, p, msg))
	}
	return ms.Marshal()
}

// ---------------------------------------------------------------------------------------------
// application

type simGenesis struct {
	Pos  postypes.GenesisState
	Auth authtypes.GenesisState
	Gov  govtypes.GenesisState
	// LazyModules: do not create the module accounts in InitChain
	LazyModules bool
}

type simApp struct {
	*baseapp.BaseApp
	keyMain, keyAuth, keyPos *sdk.KVStoreKey
	ak                       authkeeper.Keeper
	pk                       poskeeper.Keeper
	gk                       govkeeper.Keeper
	mm                       *module.Manager
	gen                      *simGenesis
	// awards / burns requested through vhook in the current block (recorded by the handler)
	awardLog []simAward
	burnLog  []simBurn
}

type simAward struct {
	To     sdk.Address
	Amount sdk.Int
}
type simBurn struct {
	Target   sdk.Address
	Severity sdk.Dec
}

var simModuleAccounts = []string{authtypes.FeeCollectorName, postypes.StakedPoolName, postypes.ModuleName, govtypes.DAOAccountName}

func simMaccPerms() map[string][]string {
	return map[string][]string{
		authtypes.FeeCollectorName: nil,
		postypes.StakedPoolName:    {authtypes.Burner, authtypes.Minter, authtypes.Staking},
		postypes.ModuleName:        nil,
		govtypes.DAOAccountName:    {authtypes.Burner, authtypes.Minter, authtypes.Staking},
	}
}

// newSimApp builds a fresh application object over db (reopen = call it again on the same db).
func newSimApp(db dbm.DB, pruning stypes.PruningOptions, gen *simGenesis) (*simApp, error) {
	simInit()
	a := &simApp{gen: gen}
	a.keyMain = sdk.NewKVStoreKey(baseapp.MainStoreKey)
	a.keyAuth = sdk.NewKVStoreKey(authtypes.StoreKey)
	a.keyPos = sdk.NewKVStoreKey(postypes.StoreKey)
	a.BaseApp = baseapp.NewBaseApp("simapp", log.NewNopLogger(), db, auth.DefaultTxDecoder(simCdc), baseapp.SetPruning(pruning))
	a.SetAppVersion("0.0.1")

	authSub := sdk.NewSubspace(auth.DefaultParamspace)
	posSub := sdk.NewSubspace(poskeeper.DefaultParamspace)
	a.ak = authkeeper.NewKeeper(simCdc, a.keyAuth, authSub, simMaccPerms())
	a.pk = poskeeper.NewKeeper(simCdc, a.keyPos, a.ak, posSub, postypes.DefaultCodespace)
	a.gk = govkeeper.NewKeeper(simCdc, sdk.ParamsKey, sdk.ParamsTKey, govtypes.DefaultCodespace, a.ak, authSub, posSub)

	a.mm = module.NewManager(auth.NewAppModule(a.ak), pos.NewAppModule(a.pk, a.ak), gov.NewAppModule(a.gk))
	a.mm.SetOrderBeginBlockers(postypes.ModuleName, govtypes.ModuleName)
	a.mm.SetOrderEndBlockers(postypes.ModuleName, govtypes.ModuleName)
	a.mm.RegisterRoutes(a.Router(), a.QueryRouter())
	a.Router().AddRoute(vhookRoute, a.vhookHandler)

	a.SetInitChainer(func(ctx sdk.Ctx, req abci.RequestInitChain) abci.ResponseInitChain {
		// pos -> auth -> gov: auth derives the supply from all accounts (incl. the staked pool filled by
		// pos), gov mints the DAO tokens through MintCoins. The exported InitGenesis functions are used
		// because pos.AppModule.InitGenesis overwrites the parameters with the defaults.
		updates := pos.InitGenesis(ctx, a.pk, a.ak, a.gen.Pos)
		auth.InitGenesis(ctx, a.ak, a.gen.Auth)
		a.gk.InitGenesis(ctx, a.gen.Gov)
		// like an embedding application's genesis, make sure every module account exists from the start
		// (a plain account created at a module address by an early send would otherwise shadow it)
		if !a.gen.LazyModules {
			for _, name := range simModuleAccounts {
				a.ak.GetModuleAccount(ctx, name)
			}
		}
		return abci.ResponseInitChain{Validators: updates}
	})
	a.SetBeginBlocker(func(ctx sdk.Ctx, req abci.RequestBeginBlock) abci.ResponseBeginBlock {
		a.awardLog, a.burnLog = nil, nil
		return a.mm.BeginBlock(ctx, req)
	})
	a.SetEndBlocker(a.mm.EndBlock)
	a.SetAnteHandler(auth.NewAnteHandler(a.ak))
	n, _ := fakeNode()
	a.SetTendermintNode(n)

	a.MountStores(a.keyMain, a.keyAuth, a.keyPos, sdk.ParamsKey, sdk.ParamsTKey)
	if err := a.LoadLatestVersion(a.keyMain); err != nil {
		return nil, err
	}
	return a, nil
}

func (a *simApp) vhookHandler(ctx sdk.Ctx, msg sdk.Msg) sdk.Result {
	switch m := msg.(type) {
	case MsgTestAward:
		a.pk.AwardCoinsTo(ctx, m.Amount, m.To)
		a.awardLog = append(a.awardLog, simAward{m.To, m.Amount})
		return sdk.Result{}
	case MsgTestBurn:
		// a foreign module can only burn validators it knows to exist
		if _, found := a.pk.GetValidator(ctx, m.Target); !found {
			return sdk.ErrUnknownRequest("vhook: no such validator").Result()
		}
		a.pk.BurnValidator(ctx, m.Target, m.Severity)
		a.burnLog = append(a.burnLog, simBurn{m.Target, m.Severity})
		return sdk.Result{}
	}
	return sdk.ErrUnknownRequest(fmt.Sprintf("vhook: unknown message %T", msg)).Result()
}

func (a *simApp) storeKeys() []sdk.StoreKey {
	return []sdk.StoreKey{a.keyMain, a.keyAuth, a.keyPos, sdk.ParamsKey}
}
