package props

// C04 — Staked pool backs validator stake one-for-one.

import (
	"encoding/hex"
	"fmt"

	"pgregory.net/rapid"

	sdk "github.com/pokt-network/posmint/types"
	authtypes "github.com/pokt-network/posmint/x/auth/types"
	postypes "github.com/pokt-network/posmint/x/pos/types"
)

type c04Oracle struct {
	c          *Case
	extra      sdk.Int // coins users (or awards) sent to the pool address directly
	pendingAwd sdk.Int // awards addressed to the pool, minted at the next BeginBlock
	sawStake   bool
	sawBurn    bool
	sawAward   bool
	sawMature  bool
	aborted    bool
}

func backedStake(v *chainView) sdk.Int {
	s := sdk.ZeroInt()
	for _, val := range v.Vals {
		if val.Status != sdk.Unstaked {
			s = s.Add(val.StakedTokens)
		}
	}
	return s
}

func (o *c04Oracle) after(ch *chain, ci *callInfo) *Violation {
	if ci.Panic != nil {
		o.aborted = true
		o.c.Label("panic:" + ci.Kind + ":" + panicClass(ci.Panic))
		return nil
	}
	v := ci.After
	poolAddr := authtypes.NewModuleAddress(postypes.StakedPoolName)
	poolHex := hex.EncodeToString(poolAddr)
	where := fmt.Sprintf("after %s (block %d tx %d, height %d)", ci.Kind, ci.BlockIx, ci.TxIx, ci.Height)

	if ci.Kind == "tx" && ci.Deliver.Code == 0 && ci.Built != nil && ci.Built.Msg != nil {
		switch m := ci.Built.Msg.(type) {
		case postypes.MsgSend:
			if hex.EncodeToString(m.ToAddress) == poolHex && hex.EncodeToString(m.FromAddress) != poolHex {
				o.extra = o.extra.Add(m.Amount)
			}
		case MsgTestAward:
			o.sawAward = true
			if hex.EncodeToString(m.To) == poolHex {
				o.pendingAwd = o.pendingAwd.Add(m.Amount)
			}
		case postypes.MsgStake:
			// the signer's account drops by exactly amount + fee and its record's stake rises by exactly amount
			o.sawStake = true
			a := hex.EncodeToString(m.GetSigner())
			beforeStake := sdk.ZeroInt()
			if bv, ok := ci.Before.Vals[a]; ok {
				beforeStake = bv.StakedTokens
			}
			av, ok := v.Vals[a]
			if !ok {
				return violf("C04/stake-accounting", "%s: accepted MsgStake left no validator record for %s", where, a)
			}
			if got := av.StakedTokens.Sub(beforeStake); !got.Equal(m.Value) {
				return violf("C04/stake-accounting", "%s: accepted MsgStake of %s raised the recorded stake of %s by %s (from %s to %s)", where, m.Value, a, got, beforeStake, av.StakedTokens)
			}
			fee := ci.Built.Fee.AmountOf(sdk.DefaultStakeDenom)
			drop := ci.Before.coinsOf(m.GetSigner()).Sub(v.coinsOf(m.GetSigner()))
			if !drop.Equal(m.Value.Add(fee)) {
				return violf("C04/stake-accounting", "%s: accepted MsgStake of %s with fee %s lowered the signer's balance by %s", where, m.Value, fee, drop)
			}
		}
	}
	if ci.Kind == "begin" {
		o.extra = o.extra.Add(o.pendingAwd)
		o.pendingAwd = sdk.ZeroInt()
		if ci.Before != nil && totalStake(ci.Before).GT(totalStake(v)) {
			o.sawBurn = true
		}
	}
	if ci.Kind == "end" && ci.Before != nil {
		// maturity: the account rises by exactly the recorded stake and the record disappears
		for a, bv := range ci.Before.Vals {
			if _, still := v.Vals[a]; still {
				continue
			}
			o.sawMature = true
			addr, _ := hex.DecodeString(a)
			rise := v.coinsOf(addr).Sub(ci.Before.coinsOf(addr))
			if bv.Status != sdk.Unstaking {
				return violf("C04/record-removed", "%s: validator %s with status %v was removed", where, a, bv.Status)
			}
			if !rise.Equal(bv.StakedTokens) {
				return violf("C04/unstake-payout", "%s: validator %s finished unstaking with recorded stake %s but its account rose by %s", where, a, bv.StakedTokens, rise)
			}
		}
	}
	pool := v.coinsOf(poolAddr)
	want := backedStake(v).Add(o.extra)
	if !pool.Equal(want) {
		return violf("C04/pool-differs-from-stake", "%s: staked pool holds %s; staked+unstaking validators record %s and %s was sent to the pool address directly (difference %s)",
			where, pool, backedStake(v), o.extra, pool.Sub(want))
	}
	return nil
}

var c04Profile = &histProfile{ScriptGov: []string{"raisemin", "lowermin", "lowermax"}, ScriptTemplates: slashStateTemplates, Scripts: true, Batches: true, OwnerBias: 3, MaxBlocks: 24, Evidence: 4, Missed: 2, Restart: 12, MaxTxs: 5,
	TxKinds: []string{"stake", "stake", "stake", "unstake", "unstake", "unjail", "send", "send", "award", "burn", "burn", "param"}}

func genC04(t *rapid.T, tier string) interface{} {
	pr := *c04Profile
	if tier == "thorough" {
		pr.MaxBlocks = 60
	}
	p := genHistory(t, &pr)
	return p
}

func execC04(prog interface{}, c *Case) *Violation {
	p := prog.(*hProg)
	ch, v := newChain(p, c)
	if v != nil || ch == nil {
		return v
	}
	o := &c04Oracle{c: c, extra: sdk.ZeroInt(), pendingAwd: sdk.ZeroInt()}
	if v := ch.run(o); v != nil {
		return v
	}
	if o.aborted {
		c.Label("aborted-by-panic")
	}
	for l, b := range map[string]bool{"stake": o.sawStake, "burn-or-slash": o.sawBurn, "award": o.sawAward, "maturity": o.sawMature} {
		if b {
			c.Label(l)
		}
	}
	if o.sawStake && o.sawBurn && o.sawAward && o.sawMature {
		c.NonTrivial()
	}
	return nil
}

func init() {
	register(&PropDef{
		ID: "C04",
		Rule: "chain histories biased to staking-state changes (stake new / re-stake with amounts around the minimum and the balance, begin-unstake, maturity with unstaking times 0 s..3 weeks, " +
			"slashes by missed votes and evidence, queued burns, awards, sends incl. to the pool address); after EVERY ABCI call the staked-pool balance must equal the stake recorded for all " +
			"staked/unstaking validators plus what was sent to the pool address; an accepted MsgStake must move exactly amount+fee out of the signer and add exactly amount to its record; a matured " +
			"validator's account must rise by exactly its recorded stake. Non-trivial = the history has an accepted stake, a slash/burn, an award and a maturity; distinctness = hash of the program",
		Gen:       genC04,
		New:       func() interface{} { return &hProg{} },
		Exec:      execC04,
		RecordCur: func(interface{}) bool { return true },
		Assum:     []string{"genesis validators are staked (a consistent genesis); module accounts exist from genesis", "a BeginBlock/EndBlock panic ends the history (owned by C05/C06/C07)"},
	})
}
