// Package props holds one generated check per property of /verif/properties.jsonl.
//
// Every property is a PropDef: a rapid generator that draws a *program* (plain JSON-serialisable
// data), an executor that interprets the program against the real posmint code and an explicit
// oracle, and a constructor used by the replay entry to decode a saved program without rapid.
package props

import (
	"encoding/json"
	"fmt"
	"hash/fnv"
	"io/ioutil"
	"os"
	"runtime/debug"
	"sort"
	"strings"
	"sync"

	"pgregory.net/rapid"
)

// Violation is an oracle failure. Sig is a stable classification chosen by the oracle; the
// known-findings file is keyed on it.
type Violation struct {
	Sig string `json:"signature"`
	Msg string `json:"message"`
}

func (v *Violation) Error() string { return v.Sig + ": " + v.Msg }

func violf(sig, format string, a ...interface{}) *Violation {
	return &Violation{Sig: sig, Msg: fmt.Sprintf(format, a...)}
}

// Case collects what one executed program covered.
type Case struct {
	tier        string
	suppress    bool // known findings are suppressed (search mode) or surfaced (replay of a finding)
	evals       int
	nontriv     []uint64
	labels      map[string]int
	knownHits   map[string]int
	nontrivFlag bool
}

func newCase(tier string, suppress bool) *Case {
	return &Case{tier: tier, suppress: suppress, labels: map[string]int{}, knownHits: map[string]int{}}
}

// Tier reports "quick" or "thorough".
func (c *Case) Tier() string { return c.tier }

// Label counts a classification of the current case.
func (c *Case) Label(l string) { c.labels[l]++ }

// Labelf counts a formatted label.
func (c *Case) Labelf(f string, a ...interface{}) { c.labels[fmt.Sprintf(f, a...)]++ }

// Eval records one evaluation inside the program (for batch programs). key identifies it for
// distinctness.
func (c *Case) Eval(key string, nontrivial bool) {
	c.evals++
	if nontrivial {
		c.nontriv = append(c.nontriv, hash64([]byte(key)))
	}
}

// NonTrivial marks the whole program as one non-trivial evaluation (history programs).
func (c *Case) NonTrivial() { c.nontrivFlag = true }

// Known reports whether the failure signature sig is listed as a known finding and must therefore
// not be raised. It counts the exclusion.
func (c *Case) Known(sig string) bool {
	if !c.suppress {
		return false
	}
	if knownSigs()[sig] {
		c.knownHits[sig]++
		return true
	}
	return false
}

// Excluding reports whether a trigger listed as a known finding is to be left out of the search by
// construction (search mode only), and counts the exclusion.
func (c *Case) Excluding(sig string) bool {
	if c.suppress && knownSigs()[sig] {
		c.knownHits[sig+" (excluded by construction)"]++
		return true
	}
	return false
}

// IsKnownListed tells generators whether a signature is listed (to exclude a trigger by
// construction). Does not count.
func IsKnownListed(sig string) bool { return knownSigs()[sig] }

// PropDef describes one property check.
type PropDef struct {
	ID   string
	Rule string                                    // how cases are generated and what makes one non-trivial
	Gen  func(t *rapid.T, tier string) interface{} // draws a program (pointer to a JSON-able struct)
	New  func() interface{}                        // empty program for decoding
	Exec func(prog interface{}, c *Case) *Violation
	// RecordCur selects the programs that are written to the current-case file before execution
	// (properties for which death of the process is itself a violation).
	RecordCur func(prog interface{}) bool
	Assum     []string
}

var registry = map[string]*PropDef{}

func register(p *PropDef) { registry[p.ID] = p }

func hash64(b []byte) uint64 {
	h := fnv.New64a()
	h.Write(b)
	return h.Sum64()
}

// ---------------------------------------------------------------------------------------------
// known findings

type knownEntry struct {
	Property  string `json:"property"`
	Status    string `json:"status"` // "known" or "fixed"
	Signature string `json:"signature"`
	What      string `json:"what"`
	Trigger   string `json:"trigger"`
	Replay    string `json:"replay"`
	Commit    string `json:"commit,omitempty"`
}

var (
	knownOnce sync.Once
	knownMap  map[string]bool
)

func knownSigs() map[string]bool {
	knownOnce.Do(func() {
		knownMap = map[string]bool{}
		path := os.Getenv("VERIF_KNOWN")
		if path == "" {
			return
		}
		bz, err := ioutil.ReadFile(path)
		if err != nil {
			return
		}
		var f struct {
			Findings []knownEntry `json:"findings"`
		}
		if err := json.Unmarshal(bz, &f); err != nil {
			panic("bad known findings file: " + err.Error())
		}
		for _, e := range f.Findings {
			if e.Status == "known" {
				knownMap[e.Signature] = true
			}
		}
	})
	return knownMap
}

// ---------------------------------------------------------------------------------------------
// statistics (per process = per shard)

const maxHashes = 1 << 20

type shardStats struct {
	Property    string            `json:"property"`
	Cases       int               `json:"cases"`       // rapid cases executed (before the first failure)
	Evaluations int               `json:"evaluations"` // evaluations inside them
	NonTrivial  int               `json:"nontrivial"`  // non-trivial evaluations (with repeats)
	Hashes      []uint64          `json:"hashes"`      // hashes of non-trivial evaluations (distinct, capped)
	HashCapped  bool              `json:"hash_capped"`
	Labels      map[string]int    `json:"labels"`
	Known       map[string]int    `json:"excluded_known"`
	Samples     []json.RawMessage `json:"samples"`
	Failed      bool              `json:"failed"`
	OtherSigs   map[string]int    `json:"other_signatures_during_shrink,omitempty"`
}

type statsAgg struct {
	mu     sync.Mutex
	s      shardStats
	seen   map[uint64]struct{}
	ntSamp int
	frozen bool
}

func newAgg(id string) *statsAgg {
	return &statsAgg{s: shardStats{Property: id, Labels: map[string]int{}, Known: map[string]int{}, OtherSigs: map[string]int{}},
		seen: map[uint64]struct{}{}}
}

func (a *statsAgg) add(progJSON []byte, c *Case) {
	a.mu.Lock()
	defer a.mu.Unlock()
	if a.frozen {
		return
	}
	a.s.Cases++
	if c.evals == 0 { // history-style program: one evaluation
		a.s.Evaluations++
		if c.nontrivFlag {
			c.nontriv = append(c.nontriv, hash64(progJSON))
		}
	} else {
		a.s.Evaluations += c.evals
	}
	a.s.NonTrivial += len(c.nontriv)
	for _, h := range c.nontriv {
		if _, ok := a.seen[h]; ok {
			continue
		}
		if len(a.seen) >= maxHashes {
			a.s.HashCapped = true
			break
		}
		a.seen[h] = struct{}{}
	}
	for l, n := range c.labels {
		a.s.Labels[l] += n
	}
	for l, n := range c.knownHits {
		a.s.Known[l] += n
	}
	// keep the first case, and the first two non-trivial ones, verbatim (bounded in size)
	if len(progJSON) < 64*1024 {
		if len(a.s.Samples) == 0 {
			a.s.Samples = append(a.s.Samples, json.RawMessage(progJSON))
		} else if len(c.nontriv) > 0 && a.ntSamp < 2 {
			a.ntSamp++
			a.s.Samples = append(a.s.Samples, json.RawMessage(progJSON))
		}
	}
}

func (a *statsAgg) flush(path string) {
	a.mu.Lock()
	defer a.mu.Unlock()
	a.s.Hashes = a.s.Hashes[:0]
	for h := range a.seen {
		a.s.Hashes = append(a.s.Hashes, h)
	}
	sort.Slice(a.s.Hashes, func(i, j int) bool { return a.s.Hashes[i] < a.s.Hashes[j] })
	bz, _ := json.Marshal(&a.s)
	if path != "" {
		_ = ioutil.WriteFile(path, bz, 0644)
	}
}

// flushLight writes the counters without the hash list (used before risky cases so that a shard
// that dies still reports what it covered; at most every 256 cases).
func (a *statsAgg) flushLight(path string) {
	a.mu.Lock()
	n := a.s.Cases
	a.mu.Unlock()
	if n%256 == 0 {
		a.flush(path)
	}
}

// ---------------------------------------------------------------------------------------------
// failure files

type failFile struct {
	Property  string          `json:"property"`
	Signature string          `json:"signature"`
	Message   string          `json:"message"`
	Program   json.RawMessage `json:"program"`
}

func writeFail(path, id string, v *Violation, progJSON []byte) {
	if path == "" {
		return
	}
	bz, _ := json.MarshalIndent(&failFile{Property: id, Signature: v.Sig, Message: v.Msg, Program: progJSON}, "", " ")
	_ = ioutil.WriteFile(path, bz, 0644)
}

// safeExec runs the executor, turning an escaped panic into a violation (executors recover the
// panics that are part of a contract themselves).
func safeExec(p *PropDef, prog interface{}, c *Case) (v *Violation) {
	defer func() {
		if r := recover(); r != nil {
			st := string(debug.Stack())
			v = &Violation{Sig: p.ID + "/unexpected-panic", Msg: fmt.Sprintf("%v\n%s", r, trimStack(st))}
		}
	}()
	return p.Exec(prog, c)
}

func trimStack(s string) string {
	lines := strings.Split(s, "\n")
	if len(lines) > 60 {
		lines = lines[:60]
	}
	return strings.Join(lines, "\n")
}

func firstLines(s string, n int) string {
	l := strings.Split(s, "\n")
	if len(l) > n {
		l = l[:n]
	}
	return strings.Join(l, "\n")
}
