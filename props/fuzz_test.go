package props

// Native go fuzz targets (thorough tier). Each target turns the fuzzer's bytes into a program of the
// owning property and runs the same executor/oracle as the rapid search; a violation writes the
// program to VERIF_FAIL (the replay file) and fails the target.

import (
	"encoding/hex"
	"encoding/json"
	"os"
	"testing"
)

func fuzzVia(f *testing.F, id string, mk func(b []byte) interface{}, seeds [][]byte) {
	simInit()
	for _, s := range seeds {
		f.Add(s)
	}
	p := registry[id]
	f.Fuzz(func(t *testing.T, b []byte) {
		prog := mk(b)
		c := newCase("thorough", true)
		if v := safeExec(p, prog, c); v != nil {
			js, _ := json.Marshal(prog)
			writeFail(os.Getenv("VERIF_FAIL"), id, v, js)
			t.Fatalf("%s", v.Error())
		}
	})
}

func c20Bytes(kind string) func(b []byte) interface{} {
	return func(b []byte) interface{} {
		return &c20Prog{Items: []c20Item{{Kind: "bytes:" + kind, Hex: hex.EncodeToString(b)}}}
	}
}

// valid encodings and hostile constants as starting corpus
func c20Seeds(kind string) [][]byte {
	simInit()
	var out [][]byte
	pool := simKeyPool(0)
	switch kind {
	case "tx", "stdtxjson":
		for _, js := range []string{
			`{"type":"posmint/StdTx","value":{"msg":{"type":"pos/Send","value":{"FromAddress":"a53f66b5073fbe66695bd045cf336a6de7fccbbd","ToAddress":"88e34e8f6020f27c32ccd46d12239e073f513d56","Amount":"5"}},"fee":[{"denom":"upokt","amount":"100"}],"signature":{"pub_key":null,"signature":"AAEC"},"memo":"m","entropy":"7"}}`,
			`{"type":"posmint/StdTx","value":{"msg":{"type":"pos/MsgBeginUnstake","value":{"validator_address":"a53f66b5073fbe66695bd045cf336a6de7fccbbd"}},"fee":[],"signature":{"pub_key":{"type":"crypto/ed25519_public_key","value":"1a9acb5e2bb169f419711ad839f005d9f2691b89d8466a7223f143cc0e5b43e2"},"signature":"AAEC"},"memo":"","entropy":"-1"}}`,
		} {
			if kind == "stdtxjson" {
				out = append(out, []byte(js))
				continue
			}
			b, err := jsonToTxBytes(js)
			if err == nil {
				out = append(out, b)
			}
		}
		if kind == "tx" {
			out = append(out, builtTxSeeds()...)
		}
	case "decstr":
		for _, s := range []string{"1.5", "-0.000000000000000001", "0.0000000000000000001", "--1", "1e5", ".5", "1."} {
			out = append(out, []byte(s))
		}
	case "coinsstr":
		for _, s := range []string{"1upokt", "5abc,3abd", "1upokt,1upokt", "0upokt", "1.5upokt"} {
			out = append(out, []byte(s))
		}
	case "intjson", "decjson":
		for _, s := range []string{`"0"`, `"-1"`, `"57896044618658097711785492504343953926634992332820282019728792003956564819967"`, `"57896044618658097711785492504343953926634992332820282019728792003956564819968"`, `"1.000000000000000000"`, `1`, `""`} {
			out = append(out, []byte(s))
		}
	case "pubkey":
		out = append(out, pool[0].Pub.RawBytes(), pool[8].Pub.RawBytes(), make([]byte, 32), make([]byte, 33))
	case "account", "validator":
		out = append(out, []byte{0}, []byte{0xc3, 0x37, 0x51, 0xfe})
	}
	out = append(out, []byte{}, []byte{0xff, 0xff, 0xff, 0xff, 0x0f})
	return out
}

type nopOracle struct{}

func (nopOracle) after(*chain, *callInfo) *Violation { return nil }

// builtTxSeeds: one signed transaction of every bundled message type built on the fuzz genesis, plus
// structural mutants of each (a field of the message / of the transaction dropped, emptied or re-typed).
func builtTxSeeds() [][]byte {
	ch, v := newChain(&hProg{Gen: fuzzGenesis()}, newCase("quick", true))
	if v != nil || ch == nil || ch.run(nopOracle{}) != nil {
		return nil
	}
	var out [][]byte
	for _, tx := range []hTx{
		{Kind: "send", From: 1, To: 2, Amt: 5},
		{Kind: "stake", From: 1, Rel: "min"},
		{Kind: "unstake", From: 0},
		{Kind: "unjail", From: 0},
		{Kind: "param", From: 0, Key: "pos/MaxValidators", Str: `"7"`},
		{Kind: "dao", From: 0, To: 1, Amt: 1, Str: "dao_transfer"},
		{Kind: "upgrade", From: 0, Amt: 100, Str: "1.0.0"},
	} {
		tx := tx
		tx.SignWith, tx.KeyInSig, tx.Entropy = -1, true, 77
		var bt *builtTx
		if catch(func() { bt = ch.buildTx(&tx) }).panicked || bt == nil {
			continue
		}
		out = append(out, bt.Bytes)
		for _, level := range []string{"msg", "tx"} {
			for _, op := range []string{"drop", "empty", "rewire"} {
				for which := 0; which < 4; which++ {
					if b, ok := structMutateTx(bt.Bytes, level, op, which); ok {
						out = append(out, b)
					}
				}
			}
		}
	}
	return out
}

func FuzzTxDecode(f *testing.F)     { fuzzVia(f, "C20", c20Bytes("tx"), c20Seeds("tx")) }
func FuzzStdTxJSON(f *testing.F)    { fuzzVia(f, "C20", c20Bytes("stdtxjson"), c20Seeds("stdtxjson")) }
func FuzzAminoAccount(f *testing.F) { fuzzVia(f, "C20", c20Bytes("account"), c20Seeds("account")) }
func FuzzAminoValidator(f *testing.F) {
	fuzzVia(f, "C20", c20Bytes("validator"), c20Seeds("validator"))
}
func FuzzPubKey(f *testing.F)     { fuzzVia(f, "C20", c20Bytes("pubkey"), c20Seeds("pubkey")) }
func FuzzJSONInt(f *testing.F)    { fuzzVia(f, "C20", c20Bytes("intjson"), c20Seeds("intjson")) }
func FuzzJSONDec(f *testing.F)    { fuzzVia(f, "C20", c20Bytes("decjson"), c20Seeds("decjson")) }
func FuzzDecFromStr(f *testing.F) { fuzzVia(f, "C20", c20Bytes("decstr"), c20Seeds("decstr")) }
func FuzzParseCoins(f *testing.F) { fuzzVia(f, "C20", c20Bytes("coinsstr"), c20Seeds("coinsstr")) }

// FuzzDeliverTx (C11): a fixed funded chain, one block whose only transaction is the fuzzer's bytes,
// delivered and also offered to CheckTx and Simulate; the C11 oracle decides.
func FuzzDeliverTx(f *testing.F) {
	mk := func(b []byte) interface{} {
		g := fuzzGenesis()
		hx := hex.EncodeToString(b)
		return &hProg{Gen: g, Blocks: []hBlock{{DTSec: 1, Proposer: 0, Txs: []hTx{
			{Kind: "raw", Str: hx, Mode: "check", SignWith: -1}, {Kind: "raw", Str: hx, Mode: "simulate", SignWith: -1}, {Kind: "raw", Str: hx, SignWith: -1},
			{Kind: "send", From: 1, To: 2, Amt: 5, SignWith: -1, KeyInSig: true, Entropy: 1}}}}}
	}
	fuzzVia(f, "C11", mk, c20Seeds("tx"))
}

func fuzzGenesis() hGenesis {
	return hGenesis{Seed: 0, Validators: []hGenVal{{Key: 0, Stake: 2000001}}, Accounts: []hGenAcc{{Key: 0, Balance: 1000000}, {Key: 1, Balance: 5000000}, {Key: 2, Balance: 10}},
		UnstakingSec: 3600, MaxValidators: 5, StakeMinimum: 1000000, MaxEvidenceSec: 120, Window: 10, MinSigned: "0.5", JailSec: 60, SlashDS: "0.05", SlashDT: "0.01",
		MaxMemo: 256, TxSigLimit: 7, FeeDefault: 1, ACLOwners: []int{0}, DAOOwner: 0, DAOTokens: 1000, KeepRecent: 0, KeepEvery: 1}
}
