package props

// Typed and raw views of the whole application state, read directly from the root multistore's
// working state (DeliverTx writes reach it immediately in this fork) and decoded with the amino
// codec — independently of the keepers and their caches.

import (
	"bytes"
	"encoding/binary"
	"encoding/hex"
	"fmt"
	"math/big"
	"sort"
	"strings"
	"time"

	"github.com/tendermint/go-amino"

	sdk "github.com/pokt-network/posmint/types"
	authexported "github.com/pokt-network/posmint/x/auth/exported"
	postypes "github.com/pokt-network/posmint/x/pos/types"
)

type rankEntry struct {
	Key  []byte
	Addr string // hex
}

type queueEntry struct {
	Key   []byte
	Time  time.Time
	Addrs []string
}

type chainView struct {
	Raw       map[string]flatKV // store name -> content
	Accounts  map[string]sdk.Coins
	AccPubKey map[string]bool
	Supply    sdk.Coins
	HasSupply bool
	Vals      map[string]postypes.Validator
	Sign      map[string]postypes.ValidatorSigningInfo
	Missed    map[string]map[int64]bool
	Rank      []rankEntry // raw 0x23 entries in key order
	PrevPower map[string]int64
	Unstaking []queueEntry
	Awards    map[string]sdk.Int
	Burns     map[string]sdk.Dec
	Proposer  string
	HasProp   bool
	Undecoded []string
}

func (a *simApp) view() *chainView {
	v := &chainView{Raw: map[string]flatKV{}, Accounts: map[string]sdk.Coins{}, AccPubKey: map[string]bool{}, Vals: map[string]postypes.Validator{},
		Sign: map[string]postypes.ValidatorSigningInfo{}, Missed: map[string]map[int64]bool{}, PrevPower: map[string]int64{},
		Awards: map[string]sdk.Int{}, Burns: map[string]sdk.Dec{}}
	for _, k := range a.storeKeys() {
		v.Raw[k.Name()] = dumpStore(a.Store().GetKVStore(k))
	}
	bad := func(what string, k string, err interface{}) {
		v.Undecoded = append(v.Undecoded, fmt.Sprintf("%s key %x: %v", what, k, err))
	}
	// auth store
	authRaw := v.Raw[a.keyAuth.Name()]
	for _, k := range authRaw.sortedKeys() {
		val := authRaw[k]
		switch k[0] {
		case 0x00:
			var s authexported.SupplyI
			if err := simCdc.UnmarshalBinaryLengthPrefixed(val, &s); err != nil {
				bad("supply", k, err)
				continue
			}
			v.Supply, v.HasSupply = s.GetTotal(), true
		case 0x01:
			var acc authexported.Account
			if err := simCdc.UnmarshalBinaryBare(val, &acc); err != nil {
				bad("account", k, err)
				continue
			}
			addr := hex.EncodeToString([]byte(k[1:]))
			v.Accounts[addr] = acc.GetCoins()
			v.AccPubKey[addr] = acc.GetPubKey() != nil
		}
	}
	// pos store
	posRaw := v.Raw[a.keyPos.Name()]
	for _, k := range posRaw.sortedKeys() {
		val := posRaw[k]
		rest := []byte(k[1:])
		switch k[0] {
		case 0x01:
			var addr sdk.Address
			if err := simCdc.UnmarshalBinaryLengthPrefixed(val, &addr); err != nil {
				bad("proposer", k, err)
				continue
			}
			v.Proposer, v.HasProp = hex.EncodeToString(addr), true
		case 0x11:
			var info postypes.ValidatorSigningInfo
			if err := simCdc.UnmarshalBinaryLengthPrefixed(val, &info); err != nil {
				bad("signing info", k, err)
				continue
			}
			v.Sign[hex.EncodeToString(rest)] = info
		case 0x12:
			if len(rest) != sdk.AddrLen+8 {
				bad("missed bit", k, "length")
				continue
			}
			var missed bool
			if err := simCdc.UnmarshalBinaryLengthPrefixed(val, &missed); err != nil {
				bad("missed bit", k, err)
				continue
			}
			addr := hex.EncodeToString(rest[:sdk.AddrLen])
			if v.Missed[addr] == nil {
				v.Missed[addr] = map[int64]bool{}
			}
			v.Missed[addr][int64(binary.LittleEndian.Uint64(rest[sdk.AddrLen:]))] = missed
		case 0x21:
			var val2 postypes.Validator
			if err := simCdc.UnmarshalBinaryLengthPrefixed(val, &val2); err != nil {
				bad("validator", k, err)
				continue
			}
			v.Vals[hex.EncodeToString(rest)] = val2
		case 0x23:
			v.Rank = append(v.Rank, rankEntry{Key: []byte(k), Addr: hex.EncodeToString(val)})
		case 0x31:
			var p int64
			if err := simCdc.UnmarshalBinaryLengthPrefixed(val, &p); err != nil {
				bad("prev power", k, err)
				continue
			}
			v.PrevPower[hex.EncodeToString(rest)] = p
		case 0x41:
			var addrs []sdk.Address
			if err := simCdc.UnmarshalBinaryLengthPrefixed(val, &addrs); err != nil {
				bad("unstaking queue", k, err)
				continue
			}
			t, err := sdk.ParseTimeBytes(rest)
			if err != nil {
				bad("unstaking queue time", k, err)
				continue
			}
			q := queueEntry{Key: []byte(k), Time: t}
			for _, ad := range addrs {
				q.Addrs = append(q.Addrs, hex.EncodeToString(ad))
			}
			v.Unstaking = append(v.Unstaking, q)
		case 0x51:
			amt := sdk.Int{}
			if err := amino.UnmarshalBinaryBare(val, &amt); err != nil {
				bad("award", k, err)
				continue
			}
			v.Awards[hex.EncodeToString(rest)] = amt
		case 0x52:
			sev := sdk.Dec{}
			if err := amino.UnmarshalBinaryBare(val, &sev); err != nil {
				bad("burn", k, err)
				continue
			}
			v.Burns[hex.EncodeToString(rest)] = sev
		}
	}
	return v
}

func (v *chainView) coinsOf(addr sdk.Address) sdk.Int {
	return v.Accounts[hex.EncodeToString(addr)].AmountOf(sdk.DefaultStakeDenom)
}

// sumAccounts adds all balances per denomination with math/big (not with Coins.Add, which C18 judges) and
// returns the sums as sorted coins without zero amounts.
func (v *chainView) sumAccounts() sdk.Coins {
	sums := map[string]*big.Int{}
	for _, cs := range v.Accounts {
		for _, c := range cs {
			if sums[c.Denom] == nil {
				sums[c.Denom] = new(big.Int)
			}
			sums[c.Denom].Add(sums[c.Denom], c.Amount.BigInt())
		}
	}
	var ds []string
	for d, x := range sums {
		if x.Sign() != 0 {
			ds = append(ds, d)
		}
	}
	sort.Strings(ds)
	var total sdk.Coins
	for _, d := range ds {
		total = append(total, sdk.Coin{Denom: d, Amount: sdk.NewIntFromBigInt(sums[d])})
	}
	return total
}

// anyNegative: a balance below zero in any denomination (own loop)
func anyNegative(cs sdk.Coins) bool {
	for _, c := range cs {
		if c.Amount.BigInt().Sign() < 0 {
			return true
		}
	}
	return false
}

func (v *chainView) supplyOf() sdk.Int { return v.Supply.AmountOf(sdk.DefaultStakeDenom) }

// rawEqual compares two views byte for byte; returns a description of the first differences.
func rawDiff(a, b *chainView) string {
	var out []string
	var stores []string
	for s := range a.Raw {
		stores = append(stores, s)
	}
	sort.Strings(stores)
	for _, s := range stores {
		ka, kb := a.Raw[s], b.Raw[s]
		keys := map[string]bool{}
		for k := range ka {
			keys[k] = true
		}
		for k := range kb {
			keys[k] = true
		}
		var ks []string
		for k := range keys {
			ks = append(ks, k)
		}
		sort.Strings(ks)
		for _, k := range ks {
			va, oka := ka[k]
			vb, okb := kb[k]
			if oka != okb || !bytes.Equal(va, vb) {
				out = append(out, fmt.Sprintf("%s[%x]: %x -> %x", s, k, va, vb))
			}
		}
	}
	if len(out) > 8 {
		out = append(out[:8], fmt.Sprintf("... %d more", len(out)-8))
	}
	return strings.Join(out, "; ")
}

// rawDiffKeys lists the changed keys (store, key).
func rawDiffKeys(a, b *chainView) [][2]string {
	var out [][2]string
	for s := range a.Raw {
		ka, kb := a.Raw[s], b.Raw[s]
		keys := map[string]bool{}
		for k := range ka {
			keys[k] = true
		}
		for k := range kb {
			keys[k] = true
		}
		for k := range keys {
			va, oka := ka[k]
			vb, okb := kb[k]
			if oka != okb || !bytes.Equal(va, vb) {
				out = append(out, [2]string{s, k})
			}
		}
	}
	sort.Slice(out, func(i, j int) bool {
		if out[i][0] != out[j][0] {
			return out[i][0] < out[j][0]
		}
		return out[i][1] < out[j][1]
	})
	return out
}

// coinsEqual compares two coin sets per denomination (Coins.IsEqual panics on differing denominations).
func coinsEqual(a, b sdk.Coins) bool {
	ma, mb := map[string]string{}, map[string]string{}
	for _, c := range a {
		if !c.Amount.IsZero() {
			ma[c.Denom] = c.Amount.String()
		}
	}
	for _, c := range b {
		if !c.Amount.IsZero() {
			mb[c.Denom] = c.Amount.String()
		}
	}
	if len(ma) != len(mb) {
		return false
	}
	for k, v := range ma {
		if mb[k] != v {
			return false
		}
	}
	return true
}
