// verif — driver for the generated checks in /verif/props.
//
//	verif check <ID> <quick|thorough>     search (replays findings first), writes evidence/<ID>.json
//	verif replay <ID> <file>              re-execute a saved program without rapid
//	verif build                           build the test binary only (setup)
//
// Exit codes: 0 held on everything explored, 1 violation (prints VIOLATION line), 2 inconclusive
// (build failure, worker death, wall-clock guard).
package main

import (
	"bytes"
	"encoding/json"
	"fmt"
	"io/ioutil"
	"os"
	"os/exec"
	"path/filepath"
	"sort"
	"strconv"
	"strings"
	"sync"
	"syscall"
	"time"
)

// root is the framework directory: /verif, or the snapshot a background run was started from (VERIF_ROOT).
var root = func() string {
	if r := os.Getenv("VERIF_ROOT"); r != "" {
		return r
	}
	return "/verif"
}()

type tierCfg struct {
	Checks   int           // rapid cases over all shards
	Shards   int           // processes
	Guard    time.Duration // wall-clock guard for the search phase
	Race     bool          // build with -race
	FuzzTime time.Duration // native fuzz campaign per target (thorough only)
}

type propCfg struct {
	Level            string
	Quick            tierCfg
	Thorough         tierCfg
	Fuzz             []string // native fuzz targets (package ./fuzz)
	DeathIsViolation bool     // a worker killed by the code under test is the violation (current-case file = replay)
}

var props = map[string]propCfg{
	"C16": {Level: "exploration",
		Quick:    tierCfg{Checks: 96000, Shards: 16, Guard: 10 * time.Minute},
		Thorough: tierCfg{Checks: 1600000, Shards: 16, Guard: 90 * time.Minute}},
	"C17": {Level: "exploration", DeathIsViolation: true,
		Quick:    tierCfg{Checks: 1600, Shards: 16, Guard: 15 * time.Minute},
		Thorough: tierCfg{Checks: 64000, Shards: 16, Guard: 120 * time.Minute}},
	"C18": {Level: "exploration",
		Quick:    tierCfg{Checks: 48000, Shards: 16, Guard: 10 * time.Minute},
		Thorough: tierCfg{Checks: 1600000, Shards: 16, Guard: 60 * time.Minute}},
	"C01": {Level: "exploration", DeathIsViolation: true,
		Quick:    tierCfg{Checks: 2400, Shards: 16, Guard: 15 * time.Minute},
		Thorough: tierCfg{Checks: 32000, Shards: 16, Guard: 150 * time.Minute}},
	"C02": {Level: "exploration", DeathIsViolation: true,
		Quick:    tierCfg{Checks: 800, Shards: 16, Guard: 15 * time.Minute},
		Thorough: tierCfg{Checks: 32000, Shards: 16, Guard: 120 * time.Minute}},
	"C03": {Level: "exploration", DeathIsViolation: true,
		Quick:    tierCfg{Checks: 1600, Shards: 16, Guard: 15 * time.Minute},
		Thorough: tierCfg{Checks: 64000, Shards: 16, Guard: 120 * time.Minute}},
	"C04": {Level: "exploration", DeathIsViolation: true,
		Quick:    tierCfg{Checks: 800, Shards: 16, Guard: 15 * time.Minute},
		Thorough: tierCfg{Checks: 32000, Shards: 16, Guard: 120 * time.Minute}},
	"C05": {Level: "exploration", DeathIsViolation: true,
		Quick:    tierCfg{Checks: 1200, Shards: 16, Guard: 15 * time.Minute},
		Thorough: tierCfg{Checks: 48000, Shards: 16, Guard: 120 * time.Minute}},
	"C06": {Level: "exploration", DeathIsViolation: true,
		Quick:    tierCfg{Checks: 1200, Shards: 16, Guard: 15 * time.Minute},
		Thorough: tierCfg{Checks: 48000, Shards: 16, Guard: 120 * time.Minute}},
	"C08": {Level: "exploration", DeathIsViolation: true,
		Quick:    tierCfg{Checks: 960, Shards: 16, Guard: 20 * time.Minute},
		Thorough: tierCfg{Checks: 16000, Shards: 16, Guard: 180 * time.Minute}},
	"C09": {Level: "exploration", DeathIsViolation: true,
		Quick:    tierCfg{Checks: 1200, Shards: 16, Guard: 15 * time.Minute},
		Thorough: tierCfg{Checks: 48000, Shards: 16, Guard: 120 * time.Minute}},
	"C07": {Level: "exploration", DeathIsViolation: true,
		Quick:    tierCfg{Checks: 1600, Shards: 16, Guard: 15 * time.Minute},
		Thorough: tierCfg{Checks: 64000, Shards: 16, Guard: 120 * time.Minute}},
	"C10": {Level: "exploration", DeathIsViolation: true,
		Quick:    tierCfg{Checks: 1200, Shards: 16, Guard: 15 * time.Minute},
		Thorough: tierCfg{Checks: 48000, Shards: 16, Guard: 120 * time.Minute}},
	"C11": {Level: "exploration", DeathIsViolation: true,
		Fuzz:     []string{"FuzzDeliverTx"},
		Quick:    tierCfg{Checks: 1600, Shards: 16, Guard: 15 * time.Minute},
		Thorough: tierCfg{Checks: 64000, Shards: 16, Guard: 120 * time.Minute, FuzzTime: 180 * time.Second}},
	"C12": {Level: "exploration",
		Quick:    tierCfg{Checks: 3200, Shards: 16, Guard: 10 * time.Minute},
		Thorough: tierCfg{Checks: 64000, Shards: 16, Guard: 90 * time.Minute}},
	"C13": {Level: "fault_enumeration",
		Quick:    tierCfg{Checks: 1600, Shards: 16, Guard: 10 * time.Minute},
		Thorough: tierCfg{Checks: 32000, Shards: 16, Guard: 90 * time.Minute}},
	"C14": {Level: "exploration",
		Quick:    tierCfg{Checks: 4800, Shards: 16, Guard: 10 * time.Minute},
		Thorough: tierCfg{Checks: 160000, Shards: 16, Guard: 90 * time.Minute}},
	"C15": {Level: "exploration", DeathIsViolation: true,
		Quick:    tierCfg{Checks: 96000, Shards: 16, Guard: 10 * time.Minute},
		Thorough: tierCfg{Checks: 1600000, Shards: 16, Guard: 90 * time.Minute, Race: true}},
	"C20": {Level: "exploration",
		Fuzz:     []string{"FuzzTxDecode", "FuzzStdTxJSON", "FuzzAminoAccount", "FuzzAminoValidator", "FuzzPubKey", "FuzzJSONInt", "FuzzJSONDec", "FuzzDecFromStr", "FuzzParseCoins"},
		Quick:    tierCfg{Checks: 32000, Shards: 16, Guard: 15 * time.Minute},
		Thorough: tierCfg{Checks: 1600000, Shards: 16, Guard: 120 * time.Minute, FuzzTime: 60 * time.Second}},
	"C19": {Level: "exploration",
		Quick:    tierCfg{Checks: 4800, Shards: 16, Guard: 15 * time.Minute},
		Thorough: tierCfg{Checks: 160000, Shards: 16, Guard: 120 * time.Minute}},
}

type knownEntry struct {
	Property  string `json:"property"`
	Status    string `json:"status"`
	Signature string `json:"signature"`
	What      string `json:"what"`
	Trigger   string `json:"trigger"`
	Replay    string `json:"replay"`
	Commit    string `json:"commit,omitempty"`
}

type shardStats struct {
	Property    string            `json:"property"`
	Cases       int               `json:"cases"`
	Evaluations int               `json:"evaluations"`
	NonTrivial  int               `json:"nontrivial"`
	Hashes      []uint64          `json:"hashes"`
	HashCapped  bool              `json:"hash_capped"`
	Labels      map[string]int    `json:"labels"`
	Known       map[string]int    `json:"excluded_known"`
	Samples     []json.RawMessage `json:"samples"`
	Failed      bool              `json:"failed"`
	OtherSigs   map[string]int    `json:"other_signatures_during_shrink"`
}

func main() {
	if len(os.Args) < 2 {
		usage()
	}
	os.Setenv("GOFLAGS", "-mod=mod")
	os.Setenv("GOPROXY", "off")
	os.Setenv("GOSUMDB", "off")
	os.Setenv("GOTOOLCHAIN", "local")
	switch os.Args[1] {
	case "build":
		if _, err := build(false); err != nil {
			fmt.Println(err)
			os.Exit(2)
		}
	case "check":
		if len(os.Args) < 4 {
			usage()
		}
		os.Exit(check(os.Args[2], os.Args[3]))
	case "replay":
		if len(os.Args) < 4 {
			usage()
		}
		mode := "finding" // known findings are surfaced
		if len(os.Args) > 4 && os.Args[4] == "search" {
			mode = "search" // known findings suppressed, as during the search
		}
		os.Exit(replayCmd(os.Args[2], os.Args[3], mode))
	default:
		usage()
	}
}

func usage() {
	fmt.Println("usage: verif check <ID> <quick|thorough> | verif replay <ID> <file> | verif build")
	os.Exit(2)
}

func workDir(id string) string { return filepath.Join(root, ".work", id) }

// build compiles the props test binary from /repo's current working tree.
func build(race bool) (string, error) {
	bin := filepath.Join(root, ".work", "bin", "props.test")
	args := []string{"test", "-c", "-tags", "verif", "-vet=off", "-o"}
	if race {
		bin += ".race"
		args = append(args, bin, "-race", "./props")
	} else {
		args = append(args, bin, "./props")
	}
	os.MkdirAll(filepath.Dir(bin), 0755)
	cmd := exec.Command("go", args...)
	cmd.Dir = root
	out, err := cmd.CombinedOutput()
	if err != nil {
		return "", fmt.Errorf("BUILD-FAILED\n%s", out)
	}
	return bin, nil
}

func loadKnown() []knownEntry {
	bz, err := ioutil.ReadFile(filepath.Join(root, "findings", "known.json"))
	if err != nil {
		return nil
	}
	var f struct {
		Findings []knownEntry `json:"findings"`
	}
	if err := json.Unmarshal(bz, &f); err != nil {
		fmt.Println("harness: bad findings/known.json:", err)
		os.Exit(2)
	}
	return f.Findings
}

func mixSeed(seed int64, shard int) uint64 {
	x := uint64(seed)*0x9E3779B97F4A7C15 + uint64(shard+1)*0xBF58476D1CE4E5B9
	x ^= x >> 31
	x *= 0x94D049BB133111EB
	x ^= x >> 29
	if x == 0 {
		x = 1
	}
	return x
}

type replayOut struct {
	Violation *struct {
		Sig string `json:"signature"`
		Msg string `json:"message"`
	} `json:"violation"`
}

// runReplay executes one saved program; returns (violation signature or "", message, error).
func runReplay(bin, id, tier, file, mode string) (string, string, error) {
	wd := workDir(id)
	os.MkdirAll(wd, 0755)
	outPath := filepath.Join(wd, fmt.Sprintf("replay-%d.json", time.Now().UnixNano()))
	defer os.Remove(outPath)
	cmd := exec.Command(bin, "-test.run", "^TestReplay$", "-test.timeout", "20m", "-test.v")
	cmd.Dir = filepath.Join(root, "props")
	cmd.Env = append(os.Environ(), "VERIF_PROP="+id, "VERIF_TIER="+tier, "VERIF_REPLAY="+file, "VERIF_REPLAY_MODE="+mode,
		"VERIF_REPLAY_OUT="+outPath, "VERIF_KNOWN="+filepath.Join(root, "findings", "known.json"), "VERIF_WORK="+wd)
	out, err := cmd.CombinedOutput()
	bz, rerr := ioutil.ReadFile(outPath)
	if rerr != nil {
		return "", "", fmt.Errorf("replay of %s produced no outcome (%v)\n%s", file, err, tail(out, 40))
	}
	var ro replayOut
	if e := json.Unmarshal(bz, &ro); e != nil {
		return "", "", e
	}
	if ro.Violation == nil {
		return "", "", nil
	}
	return ro.Violation.Sig, ro.Violation.Msg, nil
}

func tail(b []byte, n int) string {
	lines := strings.Split(strings.TrimRight(string(b), "\n"), "\n")
	if len(lines) > n {
		lines = lines[len(lines)-n:]
	}
	return strings.Join(lines, "\n")
}

func replayCmd(id, file, mode string) int {
	if _, ok := props[id]; !ok {
		fmt.Println("unknown property", id)
		return 2
	}
	bin, err := build(false)
	if err != nil {
		fmt.Println(err)
		return 2
	}
	abs, _ := filepath.Abs(file)
	sig, msg, err := runReplay(bin, id, "quick", abs, mode)
	if err != nil {
		if props[id].DeathIsViolation {
			fmt.Println("the process died while replaying:", err)
			fmt.Printf("VIOLATION property=%s replay=%s\n", id, abs)
			return 1
		}
		fmt.Println("INCONCLUSIVE:", err)
		return 2
	}
	if sig == "" {
		fmt.Printf("replay of %s: property held\n", file)
		return 0
	}
	fmt.Printf("replay of %s fails: %s: %s\n", file, sig, firstLines(msg, 30))
	fmt.Printf("VIOLATION property=%s replay=%s\n", id, abs)
	return 1
}

func firstLines(s string, n int) string {
	l := strings.Split(s, "\n")
	if len(l) > n {
		l = l[:n]
	}
	return strings.Join(l, "\n")
}

func check(id, tier string) int {
	cfg, ok := props[id]
	if !ok {
		fmt.Println("unknown property", id)
		return 2
	}
	if tier != "quick" && tier != "thorough" {
		usage()
	}
	if t := os.Getenv("VERIF_TIER"); t == "quick" || t == "thorough" {
		// the command line decides; the variable is informational
		_ = t
	}
	tc := cfg.Quick
	if tier == "thorough" {
		tc = cfg.Thorough
	}
	seed := int64(1)
	if s := os.Getenv("VERIF_SEED"); s != "" {
		if v, err := strconv.ParseInt(s, 10, 64); err == nil {
			seed = v
		}
	}
	start := time.Now()
	evPath := filepath.Join(root, "evidence", id+".json")
	os.MkdirAll(filepath.Dir(evPath), 0755)
	os.Remove(evPath)
	wd := workDir(id)
	os.RemoveAll(wd)
	os.MkdirAll(wd, 0755)
	os.RemoveAll(filepath.Join(root, "props", "testdata", "rapid"))

	bin, err := build(tc.Race)
	if err != nil {
		fmt.Println(err)
		return 2
	}

	violations := 0
	var notes []string
	knownLines := 0

	// ---- replay tier: known findings and fixed regressions
	for _, k := range loadKnown() {
		if k.Property != id || k.Replay == "" {
			continue
		}
		file := filepath.Join(root, k.Replay)
		mode := "finding" // a listed finding must still show itself
		if k.Status == "fixed" {
			mode = "search" // a repaired defect must stay away, with the listed findings excluded as in the search
		}
		sig, msg, err := runReplay(bin, id, tier, file, mode)
		if err != nil {
			fmt.Println("INCONCLUSIVE:", err)
			return 2
		}
		switch k.Status {
		case "known":
			if sig == k.Signature {
				fmt.Printf("KNOWN-FINDING: property=%s %s [%s] trigger: %s\n", id, k.What, k.Signature, k.Trigger)
				knownLines++
			} else if sig == "" {
				notes = append(notes, fmt.Sprintf("listed finding %s no longer reproduces from %s", k.Signature, k.Replay))
				fmt.Printf("note: listed finding %s no longer reproduces (replay %s passes)\n", k.Signature, k.Replay)
			} else {
				fmt.Printf("replay %s now fails differently: %s: %s\n", k.Replay, sig, firstLines(msg, 20))
				fmt.Printf("VIOLATION property=%s replay=%s\n", id, file)
				violations++
			}
		case "fixed":
			if sig != "" {
				fmt.Printf("regression: fixed defect is back (%s): %s: %s\n", k.What, sig, firstLines(msg, 20))
				fmt.Printf("VIOLATION property=%s replay=%s\n", id, file)
				violations++
			}
		}
	}
	// plain regression replays (minimised failures kept from development / seeded changes)
	regs, _ := filepath.Glob(filepath.Join(root, "findings", "repro", id+"-reg-*.json"))
	sort.Strings(regs)
	for _, file := range regs {
		sig, msg, err := runReplay(bin, id, tier, file, "search")
		if err != nil {
			fmt.Println("INCONCLUSIVE:", err)
			return 2
		}
		if sig != "" {
			fmt.Printf("regression replay %s fails: %s: %s\n", file, sig, firstLines(msg, 20))
			fmt.Printf("VIOLATION property=%s replay=%s\n", id, file)
			violations++
		}
	}

	// ---- search
	shards := tc.Shards
	if shards < 1 {
		shards = 1
	}
	per := (tc.Checks + shards - 1) / shards
	type shardRes struct {
		exit   int
		killed bool
		out    []byte
	}
	results := make([]shardRes, shards)
	var wg sync.WaitGroup
	deadline := time.Now().Add(tc.Guard)
	for s := 0; s < shards; s++ {
		wg.Add(1)
		go func(s int) {
			defer wg.Done()
			cmd := exec.Command(bin, "-test.run", "^TestProp$", "-test.timeout", "0",
				"-rapid.checks", strconv.Itoa(per), "-rapid.seed", strconv.FormatUint(mixSeed(seed, s), 10),
				"-rapid.nofailfile", "-rapid.shrinktime", "60s")
			cmd.Dir = filepath.Join(root, "props")
			cmd.Env = append(os.Environ(), "VERIF_PROP="+id, "VERIF_TIER="+tier, "VERIF_SHARD="+strconv.Itoa(s),
				"VERIF_STATS="+filepath.Join(wd, fmt.Sprintf("stats-%d.json", s)),
				"VERIF_FAIL="+filepath.Join(wd, fmt.Sprintf("fail-%d.json", s)),
				"VERIF_CUR="+filepath.Join(wd, fmt.Sprintf("cur-%d.json", s)),
				"VERIF_KNOWN="+filepath.Join(root, "findings", "known.json"), "VERIF_WORK="+wd, "GORACE=halt_on_error=1")
			var buf bytes.Buffer
			cmd.Stdout, cmd.Stderr = &buf, &buf
			cmd.SysProcAttr = &syscall.SysProcAttr{Setpgid: true}
			if err := cmd.Start(); err != nil {
				results[s] = shardRes{exit: 2, out: []byte(err.Error())}
				return
			}
			done := make(chan error, 1)
			go func() { done <- cmd.Wait() }()
			select {
			case err := <-done:
				ec := 0
				if err != nil {
					ec = 2
					if ee, ok := err.(*exec.ExitError); ok {
						ec = ee.ExitCode()
					}
				}
				results[s] = shardRes{exit: ec, out: buf.Bytes()}
			case <-time.After(time.Until(deadline)):
				syscall.Kill(-cmd.Process.Pid, syscall.SIGKILL)
				<-done
				results[s] = shardRes{exit: 2, killed: true, out: buf.Bytes()}
			}
		}(s)
	}
	wg.Wait()

	// ---- merge
	merged := shardStats{Labels: map[string]int{}, Known: map[string]int{}, OtherSigs: map[string]int{}}
	distinct := map[uint64]struct{}{}
	capped := false
	inconclusive := false
	for s := 0; s < shards; s++ {
		var st shardStats
		if bz, err := ioutil.ReadFile(filepath.Join(wd, fmt.Sprintf("stats-%d.json", s))); err == nil {
			json.Unmarshal(bz, &st)
		}
		merged.Cases += st.Cases
		merged.Evaluations += st.Evaluations
		merged.NonTrivial += st.NonTrivial
		capped = capped || st.HashCapped
		for _, h := range st.Hashes {
			distinct[h] = struct{}{}
		}
		for k, v := range st.Labels {
			merged.Labels[k] += v
		}
		for k, v := range st.Known {
			merged.Known[k] += v
		}
		if len(merged.Samples) < 4 {
			for _, sm := range st.Samples {
				if len(merged.Samples) < 4 {
					merged.Samples = append(merged.Samples, sm)
				}
			}
		}
		r := results[s]
		failFile := filepath.Join(wd, fmt.Sprintf("fail-%d.json", s))
		_, ferr := os.Stat(failFile)
		switch {
		case r.exit == 0:
		case ferr == nil:
			os.MkdirAll(filepath.Join(root, "replays"), 0755)
			dst := filepath.Join(root, "replays", fmt.Sprintf("%s-seed%d-shard%d.json", id, seed, s))
			copyFile(failFile, dst)
			var ff struct {
				Signature string `json:"signature"`
				Message   string `json:"message"`
			}
			if bz, err := ioutil.ReadFile(dst); err == nil {
				json.Unmarshal(bz, &ff)
			}
			fmt.Printf("shard %d: %s: %s\n", s, ff.Signature, firstLines(ff.Message, 25))
			fmt.Printf("VIOLATION property=%s replay=%s\n", id, dst)
			violations++
		case cfg.DeathIsViolation && !r.killed && fileExists(filepath.Join(wd, fmt.Sprintf("cur-%d.json", s))):
			os.MkdirAll(filepath.Join(root, "replays"), 0755)
			dst := filepath.Join(root, "replays", fmt.Sprintf("%s-seed%d-shard%d-death.json", id, seed, s))
			copyFile(filepath.Join(wd, fmt.Sprintf("cur-%d.json", s)), dst)
			fmt.Printf("shard %d: the process died while executing a case (exit %d)\n%s\n", s, r.exit, tail(r.out, 30))
			fmt.Printf("VIOLATION property=%s replay=%s\n", id, dst)
			violations++
		default:
			inconclusive = true
			why := "worker failed without a failure file"
			if r.killed {
				why = "wall-clock guard reached"
			}
			fmt.Printf("INCONCLUSIVE shard %d: %s (exit %d)\n%s\n", s, why, r.exit, tail(r.out, 30))
		}
	}

	// ---- native fuzz campaigns (thorough tier): a time box that expires without a crasher means "held"
	fuzzStats := map[string]interface{}{}
	if tc.FuzzTime > 0 && violations == 0 {
		for _, target := range cfg.Fuzz {
			failFile := filepath.Join(wd, "fuzz-"+target+".json")
			os.Remove(failFile)
			cmd := exec.Command("go", "test", "-tags", "verif", "-vet=off", "-run", "^$", "-fuzz", "^"+target+"$", "-fuzztime", tc.FuzzTime.String(), "./props")
			cmd.Dir = root
			cmd.Env = append(os.Environ(), "VERIF_FAIL="+failFile, "VERIF_KNOWN="+filepath.Join(root, "findings", "known.json"), "VERIF_WORK="+wd, "VERIF_TIER="+tier)
			out, err := cmd.CombinedOutput()
			execs := 0
			for _, line := range strings.Split(string(out), "\n") {
				if i := strings.Index(line, "execs: "); i >= 0 {
					fmt.Sscanf(line[i+7:], "%d", &execs)
				}
			}
			fuzzStats[target] = map[string]interface{}{"execs": execs, "fuzztime": tc.FuzzTime.String()}
			if err != nil {
				if fileExists(failFile) {
					os.MkdirAll(filepath.Join(root, "replays"), 0755)
					dst := filepath.Join(root, "replays", fmt.Sprintf("%s-%s.json", id, target))
					copyFile(failFile, dst)
					fmt.Printf("fuzz target %s found a failing input:\n%s\n", target, tail(out, 12))
					fmt.Printf("VIOLATION property=%s replay=%s\n", id, dst)
					violations++
				} else {
					inconclusive = true
					fmt.Printf("INCONCLUSIVE fuzz target %s failed without a failure file:\n%s\n", target, tail(out, 20))
				}
			}
		}
	}

	sampleVals := []json.RawMessage{} // kept verbatim (64-bit integers would not survive a float round trip)
	for _, sm := range merged.Samples {
		if json.Valid(sm) {
			sampleVals = append(sampleVals, sm)
		}
	}
	meta := readMeta(bin, id)
	cov := map[string]interface{}{
		"evaluations":             merged.Evaluations,
		"rapid_cases":             merged.Cases,
		"distinct_nontrivial":     len(distinct),
		"nontrivial_total":        merged.NonTrivial,
		"distinct_count_capped":   capped,
		"rule":                    meta.Rule,
		"samples":                 sampleVals,
		"labels":                  merged.Labels,
		"excluded_known":          merged.Known,
		"known_findings_reported": knownLines,
		"shards":                  shards,
		"requested_cases":         per * shards,
		"exhaustive":              false,
	}
	if len(notes) > 0 {
		cov["notes"] = notes
	}
	ev := map[string]interface{}{
		"property_id": id,
		"tier":        tier,
		"seed":        seed,
		"level":       cfg.Level,
		"coverage":    cov,
		"assumptions": meta.Assum,
		"wall_s":      time.Since(start).Seconds(),
		"violations":  violations,
	}
	bz, _ := json.MarshalIndent(ev, "", " ")
	ioutil.WriteFile(evPath, bz, 0644)

	fmt.Printf("%s %s seed=%d: cases=%d evaluations=%d distinct_nontrivial=%d known_excluded=%v wall=%.1fs\n",
		id, tier, seed, merged.Cases, merged.Evaluations, len(distinct), merged.Known, time.Since(start).Seconds())
	if violations > 0 {
		return 1
	}
	if inconclusive {
		return 2
	}
	if merged.Cases < per*shards {
		fmt.Printf("INCONCLUSIVE: only %d of %d cases executed\n", merged.Cases, per*shards)
		return 2
	}
	return 0
}

type propMeta struct {
	Rule  string   `json:"rule"`
	Assum []string `json:"assumptions"`
}

func readMeta(bin, id string) propMeta {
	var m propMeta
	out := filepath.Join(workDir(id), "meta.json")
	cmd := exec.Command(bin, "-test.run", "^TestMeta$")
	cmd.Dir = filepath.Join(root, "props")
	cmd.Env = append(os.Environ(), "VERIF_PROP="+id, "VERIF_META="+out)
	cmd.Run()
	if bz, err := ioutil.ReadFile(out); err == nil {
		json.Unmarshal(bz, &m)
	}
	return m
}

func fileExists(p string) bool { _, err := os.Stat(p); return err == nil }

func copyFile(src, dst string) {
	bz, err := ioutil.ReadFile(src)
	if err == nil {
		ioutil.WriteFile(dst, bz, 0644)
	}
}
