#!/bin/sh
# usage: tools_mut.sh <file-in-repo> <python-regex-old> <new> <ID> [tier]   -- applies a one-line mutation to /repo, runs the check, reverts
f=$1; old=$2; new=$3; id=$4; tier=${5:-quick}
cd /repo && git diff --quiet || { echo "repo dirty"; exit 3; }
python3 - "$f" "$old" "$new" <<'PY'
import sys,re
f,old,new=sys.argv[1:4]; new=new.encode().decode('unicode_escape')
s=open('/repo/'+f).read()
n=len(re.findall(old,s,flags=re.S))
if n!=1:
    print("MUTATION pattern matches",n,"times"); sys.exit(4)
open('/repo/'+f,'w').write(re.sub(old,lambda m:new,s,flags=re.S))
PY
[ $? = 0 ] || exit 4
git -C /repo diff --stat | tail -1
cd /verif && ./verif.sh check $id $tier > /tmp/mut.out 2>&1; rc=$?
git -C /repo checkout -- .
echo "exit=$rc"; grep -m3 -E 'shard|VIOLATION|INCONCLUSIVE|BUILD' /tmp/mut.out | cut -c1-400
