#!/bin/sh
# usage: tools_seeded_store.sh <worktree> <property-id> <name> : confirms a delivered seeded change (tools_seeded_confirm.sh)
# and stores it under seeded/<name>/ (patch.diff, demo_test.go.txt, README.md, meta.json skeleton)
wt=$1; id=$2; name=$3
cd /verif
echo "=========== $id $name"
(cd $wt && git diff | diff -q - SEEDED/patch.diff >/dev/null && echo "patch matches worktree diff" || { echo "!!! worktree diff differs from SEEDED/patch.diff"; git status --short | head -5; })
./tools_seeded_confirm.sh $wt 2>&1 | grep -v "^WARNING" | sed -n '/--- build/,$p' | grep -E "suite-exit|^ok|^FAIL\s|Messages|must" | cut -c1-220
d=/verif/seeded/$name; mkdir -p $d; cp $wt/SEEDED/README.md $d/README.md
demo=$(cd $wt && git status --porcelain | awk '{print $2}' | grep zz_seeded_demo_test.go | head -1); cp $wt/$demo $d/demo_test.go.txt; (cd $wt && git diff) > $d/patch.diff
base=$(git -C /repo log --format=%h -1)
cat > $d/meta.json <<M
{
 "property": "$id",
 "name": "$name",
 "demo_location": "$demo",
 "base_commit": "$base",
 "confirmed": "tools_seeded_confirm.sh: build ok, existing tests pass with the change, demo fails with it, passes without it",
 "breaks_property": "$id"
}
M
