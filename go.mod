module verif

go 1.23

toolchain go1.23.5

require (
	github.com/anishathalye/porcupine v1.3.0
	github.com/pokt-network/posmint v0.0.0
	github.com/tendermint/go-amino v0.15.0
	github.com/tendermint/iavl v0.12.4
	github.com/tendermint/tendermint v0.32.10
	github.com/tendermint/tm-db v0.2.0
	pgregory.net/rapid v1.3.0
)

require (
	cloud.google.com/go v0.26.0 // indirect
	github.com/BurntSushi/toml v0.3.1 // indirect
	github.com/OneOfOne/xxhash v1.2.2 // indirect
	github.com/VividCortex/gohistogram v1.0.0 // indirect
	github.com/Workiva/go-datastructures v1.0.50 // indirect
	github.com/aead/siphash v1.0.1 // indirect
	github.com/alecthomas/template v0.0.0-20160405071501-a0175ee3bccc // indirect
	github.com/alecthomas/units v0.0.0-20151022065526-2efee857e7cf // indirect
	github.com/armon/consul-api v0.0.0-20180202201655-eb2c6b5be1b6 // indirect
	github.com/beorn7/perks v1.0.0 // indirect
	github.com/btcsuite/btcd v0.0.0-20190115013929-ed77733ec07d // indirect
	github.com/btcsuite/btclog v0.0.0-20170628155309-84c8d2346e9f // indirect
	github.com/btcsuite/btcutil v0.0.0-20180706230648-ab6388e0c60a // indirect
	github.com/btcsuite/go-socks v0.0.0-20170105172521-4720035b7bfd // indirect
	github.com/btcsuite/goleveldb v0.0.0-20160330041536-7834afc9e8cd // indirect
	github.com/btcsuite/snappy-go v0.0.0-20151229074030-0bdef8d06723 // indirect
	github.com/btcsuite/websocket v0.0.0-20150119174127-31079b680792 // indirect
	github.com/btcsuite/winsvc v1.0.0 // indirect
	github.com/census-instrumentation/opencensus-proto v0.2.1 // indirect
	github.com/cespare/xxhash v1.1.0 // indirect
	github.com/client9/misspell v0.3.4 // indirect
	github.com/coreos/bbolt v1.3.2 // indirect
	github.com/coreos/etcd v3.3.10+incompatible // indirect
	github.com/coreos/go-semver v0.2.0 // indirect
	github.com/coreos/go-systemd v0.0.0-20190321100706-95778dfbb74e // indirect
	github.com/coreos/pkg v0.0.0-20180928190104-399ea9e2e55f // indirect
	github.com/davecgh/go-spew v1.1.1 // indirect
	github.com/dgrijalva/jwt-go v3.2.0+incompatible // indirect
	github.com/dgryski/go-sip13 v0.0.0-20181026042036-e10d5fee7954 // indirect
	github.com/envoyproxy/go-control-plane v0.9.0 // indirect
	github.com/envoyproxy/protoc-gen-validate v0.1.0 // indirect
	github.com/etcd-io/bbolt v1.3.3 // indirect
	github.com/facebookgo/ensure v0.0.0-20160127193407-b4ab57deab51 // indirect
	github.com/facebookgo/stack v0.0.0-20160209184415-751773369052 // indirect
	github.com/facebookgo/subset v0.0.0-20150612182917-8dac2c3c4870 // indirect
	github.com/fortytw2/leaktest v1.3.0 // indirect
	github.com/fsnotify/fsnotify v1.4.7 // indirect
	github.com/ghodss/yaml v1.0.0 // indirect
	github.com/go-kit/kit v0.9.0 // indirect
	github.com/go-logfmt/logfmt v0.4.0 // indirect
	github.com/go-stack/stack v1.8.0 // indirect
	github.com/gogo/protobuf v1.3.1 // indirect
	github.com/golang/glog v0.0.0-20160126235308-23def4e6c14b // indirect
	github.com/golang/groupcache v0.0.0-20190129154638-5b532d6fd5ef // indirect
	github.com/golang/mock v1.1.1 // indirect
	github.com/golang/protobuf v1.3.2 // indirect
	github.com/golang/snappy v0.0.1 // indirect
	github.com/google/btree v1.0.0 // indirect
	github.com/google/go-cmp v0.2.0 // indirect
	github.com/google/gofuzz v1.0.0 // indirect
	github.com/gorilla/websocket v1.4.1 // indirect
	github.com/grpc-ecosystem/go-grpc-middleware v1.0.0 // indirect
	github.com/grpc-ecosystem/go-grpc-prometheus v1.2.0 // indirect
	github.com/grpc-ecosystem/grpc-gateway v1.9.0 // indirect
	github.com/hashicorp/hcl v1.0.0 // indirect
	github.com/hpcloud/tail v1.0.0 // indirect
	github.com/inconshreveable/mousetrap v1.0.0 // indirect
	github.com/jessevdk/go-flags v0.0.0-20141203071132-1679536dcc89 // indirect
	github.com/jmhodges/levigo v1.0.0 // indirect
	github.com/jonboulle/clockwork v0.1.0 // indirect
	github.com/jrick/logrotate v1.0.0 // indirect
	github.com/julienschmidt/httprouter v1.2.0 // indirect
	github.com/kisielk/errcheck v1.2.0 // indirect
	github.com/kisielk/gotool v1.0.0 // indirect
	github.com/kkdai/bstream v0.0.0-20161212061736-f391b8402d23 // indirect
	github.com/konsorten/go-windows-terminal-sequences v1.0.1 // indirect
	github.com/kr/logfmt v0.0.0-20140226030751-b84e30acd515 // indirect
	github.com/kr/pretty v0.1.0 // indirect
	github.com/kr/pty v1.1.1 // indirect
	github.com/kr/text v0.1.0 // indirect
	github.com/libp2p/go-buffer-pool v0.0.2 // indirect
	github.com/magiconair/properties v1.8.1 // indirect
	github.com/matttproud/golang_protobuf_extensions v1.0.1 // indirect
	github.com/mitchellh/mapstructure v1.1.2 // indirect
	github.com/mwitkow/go-conntrack v0.0.0-20161129095857-cc309e4a2223 // indirect
	github.com/oklog/ulid v1.3.1 // indirect
	github.com/onsi/ginkgo v1.7.0 // indirect
	github.com/onsi/gomega v1.4.3 // indirect
	github.com/pelletier/go-toml v1.2.0 // indirect
	github.com/pkg/errors v0.8.1 // indirect
	github.com/pmezard/go-difflib v1.0.0 // indirect
	github.com/prometheus/client_golang v0.9.3 // indirect
	github.com/prometheus/client_model v0.0.0-20190812154241-14fe0d1b01d4 // indirect
	github.com/prometheus/common v0.4.0 // indirect
	github.com/prometheus/procfs v0.0.0-20190507164030-5867b95ac084 // indirect
	github.com/prometheus/tsdb v0.7.1 // indirect
	github.com/rcrowley/go-metrics v0.0.0-20180503174638-e2704e165165 // indirect
	github.com/rogpeppe/fastuuid v0.0.0-20150106093220-6724a57986af // indirect
	github.com/rs/cors v1.7.0 // indirect
	github.com/sirupsen/logrus v1.2.0 // indirect
	github.com/snikch/goodman v0.0.0-20171125024755-10e37e294daa // indirect
	github.com/soheilhy/cmux v0.1.4 // indirect
	github.com/spaolacci/murmur3 v0.0.0-20180118202830-f09979ecbc72 // indirect
	github.com/spf13/afero v1.1.2 // indirect
	github.com/spf13/cast v1.3.0 // indirect
	github.com/spf13/cobra v0.0.1 // indirect
	github.com/spf13/jwalterweatherman v1.0.0 // indirect
	github.com/spf13/pflag v1.0.3 // indirect
	github.com/spf13/viper v1.5.0 // indirect
	github.com/stretchr/objx v0.1.1 // indirect
	github.com/stretchr/testify v1.4.0 // indirect
	github.com/stumble/gorocksdb v0.0.3 // indirect
	github.com/subosito/gotenv v1.2.0 // indirect
	github.com/syndtr/goleveldb v1.0.1-0.20190318030020-c3a204f8e965 // indirect
	github.com/tmc/grpc-websocket-proxy v0.0.0-20190109142713-0ad062ec5ee5 // indirect
	github.com/ugorji/go v1.1.4 // indirect
	github.com/xiang90/probing v0.0.0-20190116061207-43a291ad63a2 // indirect
	github.com/xordataexchange/crypt v0.0.3-0.20170626215501-b2862e3d0a77 // indirect
	go.etcd.io/bbolt v1.3.3 // indirect
	go.uber.org/atomic v1.4.0 // indirect
	go.uber.org/multierr v1.1.0 // indirect
	go.uber.org/zap v1.10.0 // indirect
	golang.org/x/crypto v0.0.0-20190313024323-a1f597ede03a // indirect
	golang.org/x/exp v0.0.0-20190121172915-509febef88a4 // indirect
	golang.org/x/lint v0.0.0-20190313153728-d0100b6bd8b3 // indirect
	golang.org/x/net v0.0.0-20190628185345-da137c7871d7 // indirect
	golang.org/x/oauth2 v0.0.0-20180821212333-d2e6202438be // indirect
	golang.org/x/sync v0.0.0-20190423024810-112230192c58 // indirect
	golang.org/x/sys v0.0.0-20190813064441-fde4db37ae7a // indirect
	golang.org/x/text v0.3.0 // indirect
	golang.org/x/time v0.0.0-20190308202827-9d24e82272b4 // indirect
	golang.org/x/tools v0.0.0-20190524140312-2c0ae7006135 // indirect
	google.golang.org/appengine v1.4.0 // indirect
	google.golang.org/genproto v0.0.0-20190819201941-24fa4b261c55 // indirect
	google.golang.org/grpc v1.25.1 // indirect
	gopkg.in/alecthomas/kingpin.v2 v2.2.6 // indirect
	gopkg.in/check.v1 v1.0.0-20180628173108-788fd7840127 // indirect
	gopkg.in/fsnotify.v1 v1.4.7 // indirect
	gopkg.in/resty.v1 v1.12.0 // indirect
	gopkg.in/tomb.v1 v1.0.0-20141024135613-dd632973f1e7 // indirect
	gopkg.in/yaml.v2 v2.2.4 // indirect
	honnef.co/go/tools v0.0.0-20190523083050-ea95bdfd59fc // indirect
)

replace github.com/pokt-network/posmint => /repo

replace github.com/tendermint/tendermint => github.com/pokt-network/tendermint v0.32.11-0.20200616153411-15dcdd9fbf5f
