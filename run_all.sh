#!/bin/sh
# runs every claimed check of MANIFEST.json at the given tier (default quick); prints a summary
tier=${1:-quick}
cd /verif
ids=$(python3 -c "import json;print(' '.join(c['property_id'] for c in json.load(open('MANIFEST.json'))['checks']))")
rc=0
for id in $ids; do
  ./verif.sh check $id $tier > .work/all-$id.log 2>&1; e=$?
  echo "$id exit=$e $(tail -1 .work/all-$id.log | cut -c1-200)"
  [ $e = 0 ] || rc=1
done
exit $rc
