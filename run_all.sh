#!/bin/sh
# runs every claimed check of MANIFEST.json at the given tier (default quick); prints a summary
tier=${1:-quick}
cd "$(dirname "$0")"
ids=$(python3 -c "import json;print(' '.join(c['property_id'] for c in json.load(open('MANIFEST.json'))['checks']))")
rc=0
mkdir -p .work
for id in $ids; do
  ./verif.sh check $id $tier > .work/all-$id.log 2>&1; e=$?
  echo "$id exit=$e $(tail -1 .work/all-$id.log | cut -c1-160)"
  [ $e = 0 ] || { rc=1; grep -v '^KNOWN' .work/all-$id.log | head -20; }
done
exit $rc
