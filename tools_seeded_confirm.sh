#!/bin/sh
# usage: tools_seeded_confirm.sh <worktree> : independently confirms a seeded change delivered by a sub-agent
# (build ok, existing tests pass with the change, demo fails with it and passes without it)
wt=$1
export GOFLAGS=-mod=mod GOPROXY=off GOSUMDB=off GOTOOLCHAIN=local
cd $wt || exit 3
demo=$(git status --porcelain | awk '{print $2}' | grep 'zz_seeded_demo_test.go' | head -1)
[ -n "$demo" ] || { echo "no demo file"; exit 3; }
pkg=./$(dirname $demo)
aside=/tmp/seeded-aside-$(basename $wt); mkdir -p $aside && rm -rf $aside/*
mv SEEDED $aside/SEEDED; mv $demo $aside/demo_test.go
git diff > $aside/patch.diff
echo "--- patch:"; cat $aside/patch.diff | head -60
echo "--- build + existing tests WITH the change"
go build ./... && go test -vet=off -count=1 ./... 2>&1 | grep -v 'no test files' | grep -v '^ok' ; echo "suite-exit=$?(grep)"
cp $aside/demo_test.go $demo
echo "--- demo WITH the change (must fail)"
go test -vet=off -count=1 -run 'Seeded' $pkg 2>&1 | tail -5
echo "--- demo WITHOUT the change (must pass)"
# (no git stash: the stash is shared by all worktrees of a repository)
git apply -R $aside/patch.diff || { echo "cannot revert patch"; exit 3; }
go test -vet=off -count=1 -run 'Seeded' $pkg 2>&1 | tail -3
git apply $aside/patch.diff
mv $aside/SEEDED SEEDED
