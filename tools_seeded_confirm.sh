#!/bin/sh
# usage: tools_seeded_confirm.sh <worktree> : independently confirms a seeded change delivered by a sub-agent
# (build ok, existing tests pass with the change, demo fails with it and passes without it)
wt=$1
export GOFLAGS=-mod=mod GOPROXY=off GOSUMDB=off GOTOOLCHAIN=local
cd $wt || exit 3
demo=$(git status --porcelain | awk '{print $2}' | grep 'zz_seeded_demo_test.go' | head -1)
[ -n "$demo" ] || { echo "no demo file"; exit 3; }
pkg=./$(dirname $demo)
mkdir -p /tmp/seeded-aside && rm -rf /tmp/seeded-aside/*
mv SEEDED /tmp/seeded-aside/SEEDED; mv $demo /tmp/seeded-aside/demo_test.go
git diff > /tmp/seeded-aside/patch.diff
echo "--- patch:"; cat /tmp/seeded-aside/patch.diff | head -60
echo "--- build + existing tests WITH the change"
go build ./... && go test -vet=off -count=1 ./... 2>&1 | grep -v 'no test files' | grep -v '^ok' ; echo "suite-exit=$?(grep)"
cp /tmp/seeded-aside/demo_test.go $demo
echo "--- demo WITH the change (must fail)"
go test -vet=off -count=1 -run 'Seeded' $pkg 2>&1 | tail -5
echo "--- demo WITHOUT the change (must pass)"
git stash -q
cp /tmp/seeded-aside/demo_test.go $demo
go test -vet=off -count=1 -run 'Seeded' $pkg 2>&1 | tail -3
rm -f $demo
git stash pop -q
cp /tmp/seeded-aside/demo_test.go $demo
mv /tmp/seeded-aside/SEEDED SEEDED
