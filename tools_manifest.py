#!/usr/bin/env python3
# regenerates /verif/MANIFEST.json from the table below (kept next to the driver's own table in cmd/verif/main.go)
import json
ids = [json.loads(l)['id'] for l in open('/verif/properties.jsonl')]
C = {}
def claim(pid, technique, level, text, note, design):
    C[pid] = dict(property_id=pid, quick_cmd=f"./verif.sh check {pid} quick", thorough_cmd=f"./verif.sh check {pid} thorough",
        evidence_file=f"/verif/evidence/{pid}.json", replay_cmd_template=f"./verif.sh replay {pid} {{path}}", engine="rapid-props",
        level_claimed=dict(category=level, text=text, design_ref=design), level_note=note, technique=technique)

claim("C18", "property-based differential testing against math/big (rapid, biased operand generators, shrinking)", "exploration",
  "Every exported Int/Uint/Dec/Coins/DecCoins operation is evaluated on generated operands (full bit range, constructed rounding ties, range bounds, shared denominations) and compared with an exact big.Int computation incl. the panic/no-panic decision and operand immutability; held on everything generated, absence is not established.",
  "math/big is trusted; truncating division conventions of Int.Quo/Dec.QuoInt assumed; known finding C18/dec/quo-36-digit-double-rounding is excluded by its exact predicate and reported as KNOWN-FINDING",
  "DESIGN.md §4 C18")

NOT_YET = "check not built yet in this revision (work in progress, see DESIGN.md Appendix C)"
m = dict(version=1,
  setup_cmd="./verif.sh build",
  hooks=dict(guard="verif", enable="go test -tags verif (the harness module replaces github.com/pokt-network/posmint with /repo)",
             baseline_off_cmd="cd /repo && GOFLAGS=-mod=mod go test -vet=off -count=1 -timeout 25m ./...",
             source_commits=[], add_only=True),
  engines=[dict(name="rapid-props", path="/verif/props", serves_properties=sorted(C), kind_free_text="pgregory.net/rapid v1.3.0 generators + executable oracles, sharded by cmd/verif; native go fuzz targets in /verif/fuzz for the thorough tier")],
  checks=[C[k] for k in sorted(C)],
  notes="All checks: ./verif.sh check <ID> <quick|thorough>; VERIF_SEED selects the rapid seeds; exit 2 = inconclusive (never a violation). Known findings: findings/known.json.",
  not_applicable=[dict(property_id=i, reason=NOT_YET) for i in ids if i not in C])
json.dump(m, open('/verif/MANIFEST.json','w'), indent=1)
print("claimed", sorted(C))
