#!/usr/bin/env python3
# regenerates /verif/MANIFEST.json from the table below (kept next to the driver's own table in cmd/verif/main.go)
import json
ids = [json.loads(l)['id'] for l in open('/verif/properties.jsonl')]
C = {}
def claim(pid, technique, level, text, note, design):
    C[pid] = dict(property_id=pid, quick_cmd=f"./verif.sh check {pid} quick", thorough_cmd=f"./verif.sh check {pid} thorough",
        evidence_file=f"/verif/evidence/{pid}.json", replay_cmd_template=f"./verif.sh replay {pid} {{path}}", engine="rapid-props",
        level_claimed=dict(category=level, text=text, design_ref=design), level_note=note, technique=technique)

claim("C18", "property-based differential testing against math/big (rapid, biased operand generators, shrinking)", "exploration",
  "Every exported Int/Uint/Dec/Coins/DecCoins operation is evaluated on generated operands (full bit range, constructed rounding ties, range bounds, shared denominations) and compared with an exact big.Int computation incl. the panic/no-panic decision and operand immutability; held on everything generated, absence is not established.",
  "math/big is trusted; truncating division conventions of Int.Quo/Dec.QuoInt assumed; known finding C18/dec/quo-36-digit-double-rounding is excluded by its exact predicate and reported as KNOWN-FINDING",
  "DESIGN.md §4 C18")

claim("C12", "model-based property testing of commit/reopen/LoadVersion histories incl. restart one block behind and refused loads on the live object (rapid stateful programs vs. snapshot-per-version model)", "exploration",
  "Generated write/delete/commit/reopen histories over 1-4 IAVL stores and a transient store under every pruning policy shape are run on rootmulti; after every commit and reopen the version step, commit id and full content are compared with a snapshot-per-version model, and a fresh store must load exactly the versions the documented pruning rule retains (pruned/future => error).",
  "MemDB back end (durability of the DB engine is trusted); retention model = documented pruning rule; lazy loading and StoreTypeDB mounts are outside the generated configurations",
  "DESIGN.md §4 C12")
claim("C13", "fault injection by crash-point enumeration over generated commit histories, at store level (rootmulti over an instrumented DB) and at application level (a whole node with query / CheckTx traffic), with a reopen-and-replay oracle and continuation against an uninterrupted reference run", "fault_enumeration",
  "For generated histories every durable write unit of the interrupted commit(s) is used as a crash point (complete enumeration per interrupted commit): the surviving database must reopen at the old or new version with exactly that version's hash and content in all stores, replay must reproduce the uninterrupted hash, and retained versions must stay loadable. One case in five runs a generated chain history on a whole application instead: every prefix of the Commit's write log is applied to a clone of the pre-commit database, a new application must open it at the old or new height with that height's app hash, and re-executing the interrupted block must give the uninterrupted results and hash.",
  "atomic batch writes assumed; crash = process death between durable write units; two known findings (prune of the last flushed version when keepRecent=0; partial first commit) are excluded by their exact predicates and reported as KNOWN-FINDING",
  "DESIGN.md §4 C13")
claim("C15", "stateful model-based testing (rapid programs vs. stack-of-sorted-maps model) + concurrent histories checked for linearizability (porcupine), half of them under a harness-owned schedule (parent reads held while the other thread's operation starts), and under -race", "exploration",
  "Generated programs of get/has/set/delete/iterators (drained and kept open across writes)/write/wrap/discard over nested cache wrappers on MemDB, IAVL, prefix and cache-multistore bases are compared step by step with an overlay model incl. parent-unchanged-until-Write and Write result; concurrent goroutine programs on one wrapper must be linearizable per key; the thorough tier runs under the race detector.",
  "goroutine schedules are sampled, not enumerated; lower wrappers are only read while a higher one is alive; Write/discard with no iterator open",
  "DESIGN.md §4 C15")
claim("C16", "differential model-based testing of wrapper stacks (prefix map model, exact big-integer gas ledger, expected trace) with generated boundary prefixes and limits", "exploration",
  "Generated stacks of prefix/gas/trace wrappers (optionally over a cache wrap) run generated programs; results, parent content outside the prefix, GasConsumed after every operation, the exact operation and kind of gas panic (limit chosen relative to the model's own total, or amounts near 2^64 on the meter directly) and the decoded trace lines are compared with the model.",
  "gas charges as documented in store/gaskv and KVGasConfig; state after a gas panic is not asserted; trace lines exact only for a trace wrapper on top of the stack",
  "DESIGN.md §4 C16")

claim("C14", "model-based property testing of key and subspace store queries on a live and reopened BaseApp with real proof verification (differential across heights, metamorphic value/key flips)", "exploration",
  "Generated tx/commit/query histories on a BaseApp with a kv module: every /store/<s>/key answer is compared with the snapshot committed at the requested height (also while uncommitted writes exist), proofs are verified with the real proof runtime against that height's app hash, must fail against every other height's hash and for flipped values/keys; pruned/future heights must return neither value nor proof.",
  "tendermint merkle proof runtime trusted as verifier; two known findings rooted in tendermint/iavl v0.12.4 getRangeProof (absence-proof leaves, all-0xFF key) are excluded by predicates computed from the committed key set and reported as KNOWN-FINDING",
  "DESIGN.md §4 C14")

CH = "state is read from the root multistore's working state and decoded independently of the keepers; Tendermint is mirrored by the harness (validator-set delay, tx index stub); listed known findings are excluded by construction and reported as KNOWN-FINDING"
claim("C01", "differential testing of twin application instances over generated ABCI histories (rapid, restart and pruning differentials, extra read-only traffic on one twin) + schedule-controlled iterator programs (harness-owned goroutine schedule via a gated database, late-read oracle)", "exploration",
  "Two independently built instances receive the same generated consensus requests (genesis with map-typed sections, votes, evidence, valid/invalid transactions, awards, burns, monotone times); one is restarted from its database at generated points, the other uses a different pruning configuration and gets extra CheckTx/Simulate/Query traffic; one history in three runs under a block gas limit; every consensus-relevant response and the app hash at every height must be identical.",
  "map-order / goroutine-timing nondeterminism is sampled per case, not enumerated; logs and gas not compared; " + CH, "DESIGN.md §4 C01")
claim("C02", "history invariant checking with a supply ledger over generated ABCI histories (rapid)", "exploration",
  "After every ABCI call of a generated history the recorded supply must equal the sum of all balances, no balance may be negative, and the supply delta of the call must match the statement (only award mints, slash/forced-unstake burns in BeginBlock and DAO burns move it).",
  CH, "DESIGN.md §4 C02")
claim("C03", "decision-table oracle over generated and mutated signed transactions observed through CheckTx/DeliverTx, signature validity decided by construction (rapid)", "exploration",
  "Transactions of every message and key type (key in signature or in state), signed by the right or a foreign key, with one post-signing mutation, fee/balance edge cases (fees naming a second denomination included) and replays are submitted; accept/reject is compared with a model written from the statement, rejected ones must leave the state byte-identical, accepted ones must move exactly the fee into the collector.",
  "for transactions the harness builds, signature validity is known by construction (which key signed which content, what changed afterwards) and required fees are keyed by Go type; only byte-level mutants use the library's verification; same-block replays are outside the app's knowledge; " + CH, "DESIGN.md §4 C03")
claim("C04", "history invariant checking of pool backing over generated staking histories (rapid)", "exploration",
  "After every ABCI call the staked-pool balance must equal the stake recorded for staked/unstaking validators plus direct sends to the pool; accepted stakes and matured unstakes must move exactly the recorded amounts.",
  CH, "DESIGN.md §4 C04")
claim("C05", "model-based testing of the validator-update stream against a Tendermint mirror and the real tendermint ValidatorSet (rapid)", "exploration",
  "Every InitChain/EndBlock batch of a generated history is applied to a mirror and to tendermint's UpdateWithChangeSet (must be applicable), after which the mirror must equal the MaxValidators highest-powered staked, unjailed validators with power floor(stake/10^6), ties by address.",
  "a batch that empties the set ends the comparison for that history; " + CH, "DESIGN.md §4 C05")
claim("C06", "model-based state-machine checking of validator lifecycle edges and secondary indexes over generated histories (rapid)", "exploration",
  "Validator records before/after every call must follow the legal edges with their stated cause; the raw power index and unstaking queue are compared with the primary records; releases must happen at the first block at/after begin+UnstakingTime with the whole stake; non-unstaked validators keep the minimum stake.",
  "parameters (StakeMinimum, UnstakingTime ...) are changed by governance within histories; the minimum-stake clause is judged only while the parameter is unchanged, as stated; " + CH, "DESIGN.md §4 C06")
claim("C07", "reference arithmetic model (math/big) of slashing applied to generated BeginBlocks (rapid)", "exploration",
  "Queued burns, downtime slashes and double-sign evidence of generated blocks are replayed on an exact sequential model of the statement; per-validator stake, status, tombstone, pool, supply and bystander balances must match, and BeginBlock must complete.",
  "which validators cross the downtime threshold is taken from the block's slash events (C08 decides when and checks the amount); queued burn severities come from the harness's own handler log; two test-pinned evidence panics are known findings; " + CH, "DESIGN.md §4 C07")
claim("C08", "ring-buffer reference model of the downtime window over generated vote sequences (rapid)", "exploration",
  "For generated vote patterns of length up to 4 windows the stored counter, offset and missed-bit array of every validator must equal a ring-buffer model after every block, and the slash+jail must occur at exactly the first block the statement names and reset the window.",
  "window parameters unchanged within a history; " + CH, "DESIGN.md §4 C08")
claim("C09", "admissibility model of jailing/unjailing over generated histories with a Tendermint mirror (rapid)", "exploration",
  "Jailed or convicted validators must be absent from the mirrored Tendermint set after every EndBlock; an ante-accepted unjail must be accepted iff the statement's conditions hold; accepted unjails regain exactly floor(stake/10^6); convictions tombstone and jail until year 9999.",
  "applicability of the update batches is C05's subject; " + CH, "DESIGN.md §4 C09")
claim("C10", "per-block accounting model of fee distribution and award minting over generated histories (rapid)", "exploration",
  "At every BeginBlock every account's balance delta is compared with the model: collector emptied, previous proposer (or pos module) credited once with the full fees, each award address credited the sum of its queued awards, supply delta, emptied queue, recorded proposer.",
  CH, "DESIGN.md §4 C10")
claim("C11", "byte-for-byte state-dump equality around rejected transactions and read-only calls over generated and mutated inputs (rapid; native fuzz target in the thorough tier)", "exploration",
  "Random bytes, mutated valid transactions and well-formed transactions engineered to fail are delivered at any position; a non-zero code must leave all stores byte-identical except the fee of ante-accepted ones; CheckTx/Simulate/Query must leave them identical; no panic may escape DeliverTx/CheckTx/Simulate.",
  "the transient params store is outside the dump; a panicking plain query is only required not to change state; " + CH, "DESIGN.md §4 C11")
claim("C17", "access-control model of governance messages over generated histories with ownership hand-overs (rapid)", "exploration",
  "Parameter changes, upgrades and DAO transfers/burns by owners, owners of other keys and strangers with well-formed/malformed values: non-owner => rejected and only the fee changes; owner + well-formed => exactly that raw parameter entry changes to the canonical encoding; DAO => exact account and supply deltas.",
  "unknown subspaces with ACL entries and reachable upgrade heights end in a deliberate os.Exit and are not generated; " + CH, "DESIGN.md §4 C17")

claim("C19", "oracle-by-construction over generated keys, messages and (nested) multisignatures + model-based state machine over the keybase (rapid)", "exploration",
  "Signatures are produced for generated key trees and messages with at most one mutation (foreign key, other message, bit flip, truncation, extension, dropped/swapped/duplicated/extra/foreign multisig component, verification against another key or message): VerifyBytes must be true exactly when nothing was mutated. Keybase programs of create/import/update/delete/sign/export operations with right and wrong passphrases are compared with a map model incl. List() after every step.",
  "scrypt cost bounds the keybase depth; the in-memory keybase is used; keys from Keybase.Create come from system randomness and only enter the model through their reported public key",
  "DESIGN.md §4 C19")
claim("C20", "round-trip and metamorphic property testing over generated wire/storage values (rapid) + coverage-guided native go fuzzing of the decoders in the thorough tier", "exploration",
  "Generated values of every wire/storage type are round-tripped through amino JSON, length-prefixed and bare binary (re-encoding equality, absent==empty); StdTx sign bytes must be identical across encodings incl. permuted/reindented JSON and differ for any single-field change; 11 decoders are fed random and mutated-valid bytes (error or consistently re-encodable value, never a panic); power-rank and unstaking-queue keys must parse back and order like their values. Thorough adds go test -fuzz campaigns on 9 decoder targets.",
  "amino itself is trusted for the generic struct encoding; DeliverTx/CheckTx on arbitrary bytes are covered by C11 (and its FuzzDeliverTx target)",
  "DESIGN.md §4 C20")

NOT_YET = "check not built yet in this revision (work in progress, see DESIGN.md Appendix C)"
m = dict(version=1,
  setup_cmd="./verif.sh build",
  hooks=dict(guard="verif", enable="go test -tags verif (the harness module replaces github.com/pokt-network/posmint with /repo)",
             baseline_off_cmd="cd /repo && GOFLAGS=-mod=mod go test -vet=off -count=1 -timeout 25m ./...",
             source_commits=[], add_only=True),
  engines=[dict(name="rapid-props", path="/verif/props", serves_properties=sorted(C), kind_free_text="pgregory.net/rapid v1.3.0 generators + executable oracles, sharded by cmd/verif; native go fuzz targets in /verif/fuzz for the thorough tier")],
  checks=[C[k] for k in sorted(C)],
  notes="All checks: ./verif.sh check <ID> <quick|thorough>; VERIF_SEED selects the rapid seeds; exit 2 = inconclusive (never a violation). Known findings: findings/known.json.",
  not_applicable=[dict(property_id=i, reason=NOT_YET) for i in ids if i not in C])
json.dump(m, open('/verif/MANIFEST.json','w'), indent=1)
print("claimed", sorted(C))
