#!/usr/bin/env python3
# regenerates /verif/MANIFEST.json from the table below (kept next to the driver's own table in cmd/verif/main.go)
import json
ids = [json.loads(l)['id'] for l in open('/verif/properties.jsonl')]
C = {}
def claim(pid, technique, level, text, note, design):
    C[pid] = dict(property_id=pid, quick_cmd=f"./verif.sh check {pid} quick", thorough_cmd=f"./verif.sh check {pid} thorough",
        evidence_file=f"/verif/evidence/{pid}.json", replay_cmd_template=f"./verif.sh replay {pid} {{path}}", engine="rapid-props",
        level_claimed=dict(category=level, text=text, design_ref=design), level_note=note, technique=technique)

claim("C18", "property-based differential testing against math/big (rapid, biased operand generators, shrinking)", "exploration",
  "Every exported Int/Uint/Dec/Coins/DecCoins operation is evaluated on generated operands (full bit range, constructed rounding ties, range bounds, shared denominations) and compared with an exact big.Int computation incl. the panic/no-panic decision and operand immutability; held on everything generated, absence is not established.",
  "math/big is trusted; truncating division conventions of Int.Quo/Dec.QuoInt assumed; known finding C18/dec/quo-36-digit-double-rounding is excluded by its exact predicate and reported as KNOWN-FINDING",
  "DESIGN.md §4 C18")

claim("C12", "model-based property testing of commit/reopen/LoadVersion histories (rapid stateful programs vs. snapshot-per-version model)", "exploration",
  "Generated write/delete/commit/reopen histories over 1-4 IAVL stores and a transient store under every pruning policy shape are run on rootmulti; after every commit and reopen the version step, commit id and full content are compared with a snapshot-per-version model, and a fresh store must load exactly the versions the documented pruning rule retains (pruned/future => error).",
  "MemDB back end (durability of the DB engine is trusted); retention model = documented pruning rule; lazy loading and StoreTypeDB mounts are outside the generated configurations",
  "DESIGN.md §4 C12")
claim("C13", "fault injection by crash-point enumeration over generated commit histories (instrumented DB, reopen-and-replay oracle)", "fault_enumeration",
  "For generated histories every durable write unit of the interrupted commit(s) is used as a crash point (complete enumeration per interrupted commit): the surviving database must reopen at the old or new version with exactly that version's hash and content in all stores, replay must reproduce the uninterrupted hash, and retained versions must stay loadable.",
  "atomic batch writes assumed; crash = process death between durable write units; two known findings (prune of the last flushed version when keepRecent=0; partial first commit) are excluded by their exact predicates and reported as KNOWN-FINDING",
  "DESIGN.md §4 C13")
claim("C15", "stateful model-based testing (rapid programs vs. stack-of-sorted-maps model) + concurrent histories checked for linearizability (porcupine) and under -race", "exploration",
  "Generated programs of get/has/set/delete/iterators (drained and kept open across writes)/write/wrap/discard over nested cache wrappers on MemDB, IAVL, prefix and cache-multistore bases are compared step by step with an overlay model incl. parent-unchanged-until-Write and Write result; concurrent goroutine programs on one wrapper must be linearizable per key; the thorough tier runs under the race detector.",
  "goroutine schedules are sampled, not enumerated; lower wrappers are only read while a higher one is alive; Write/discard with no iterator open",
  "DESIGN.md §4 C15")
claim("C16", "differential model-based testing of wrapper stacks (prefix map model, exact big-integer gas ledger, expected trace) with generated boundary prefixes and limits", "exploration",
  "Generated stacks of prefix/gas/trace wrappers (optionally over a cache wrap) run generated programs; results, parent content outside the prefix, GasConsumed after every operation, the exact operation and kind of gas panic (limit chosen relative to the model's own total, or amounts near 2^64 on the meter directly) and the decoded trace lines are compared with the model.",
  "gas charges as documented in store/gaskv and KVGasConfig; state after a gas panic is not asserted; trace lines exact only for a trace wrapper on top of the stack",
  "DESIGN.md §4 C16")

claim("C14", "model-based property testing of store queries on a live BaseApp with real proof verification (differential across heights, metamorphic value/key flips)", "exploration",
  "Generated tx/commit/query histories on a BaseApp with a kv module: every /store/<s>/key answer is compared with the snapshot committed at the requested height (also while uncommitted writes exist), proofs are verified with the real proof runtime against that height's app hash, must fail against every other height's hash and for flipped values/keys; pruned/future heights must return neither value nor proof.",
  "tendermint merkle proof runtime trusted as verifier; two known findings rooted in tendermint/iavl v0.12.4 getRangeProof (absence-proof leaves, all-0xFF key) are excluded by predicates computed from the committed key set and reported as KNOWN-FINDING",
  "DESIGN.md §4 C14")

NOT_YET = "check not built yet in this revision (work in progress, see DESIGN.md Appendix C)"
m = dict(version=1,
  setup_cmd="./verif.sh build",
  hooks=dict(guard="verif", enable="go test -tags verif (the harness module replaces github.com/pokt-network/posmint with /repo)",
             baseline_off_cmd="cd /repo && GOFLAGS=-mod=mod go test -vet=off -count=1 -timeout 25m ./...",
             source_commits=[], add_only=True),
  engines=[dict(name="rapid-props", path="/verif/props", serves_properties=sorted(C), kind_free_text="pgregory.net/rapid v1.3.0 generators + executable oracles, sharded by cmd/verif; native go fuzz targets in /verif/fuzz for the thorough tier")],
  checks=[C[k] for k in sorted(C)],
  notes="All checks: ./verif.sh check <ID> <quick|thorough>; VERIF_SEED selects the rapid seeds; exit 2 = inconclusive (never a violation). Known findings: findings/known.json.",
  not_applicable=[dict(property_id=i, reason=NOT_YET) for i in ids if i not in C])
json.dump(m, open('/verif/MANIFEST.json','w'), indent=1)
print("claimed", sorted(C))
