#!/bin/sh
# entry point used by MANIFEST.json: builds the driver and runs it from the directory this script lives in
# (normally /verif; a snapshot directory for background runs).
set -e
cd "$(dirname "$0")"
VERIF_ROOT="$(pwd)"; export VERIF_ROOT
export GOFLAGS=-mod=mod GOPROXY=off GOSUMDB=off GOTOOLCHAIN=local
mkdir -p .work/bin
go build -o .work/bin/verif ./cmd/verif || { echo "BUILD-FAILED (driver)"; exit 2; }
exec .work/bin/verif "$@"
