#!/bin/sh
# entry point used by MANIFEST.json: builds the driver and runs it. cwd-independent.
set -e
cd /verif
export GOFLAGS=-mod=mod GOPROXY=off GOSUMDB=off GOTOOLCHAIN=local
mkdir -p .work/bin
go build -o .work/bin/verif ./cmd/verif || { echo "BUILD-FAILED (driver)"; exit 2; }
exec .work/bin/verif "$@"
